"""Property table for /verif/bin/check: which test binaries / tests decide which property."""

ASSUMPTIONS = [
    "A1 Go toolchain, pgregory.net/rapid v1.3.0 and the vendored client-go/apimachinery/controller-runtime behave as documented",
    "A6 verdicts are for the generated cases only; counts, class histograms and samples are measured on this run",
]

SIM_ASSUMPTIONS = [
    "A2 the in-memory API server simulator (harness/sim/server.go) matches kube-apiserver for the behaviours listed in DESIGN.md 2.2; admission, defaulting, conversion, pruning, RBAC and the GC controller are absent",
    "A3 objects are stored as decoded; no server-side normalisation",
    "A4 hook programs are pure, answer in time and respect the documented input contract (no null leaves, no integral floats, unique child names)",
    "A5 harness-owned caches may lag per resource type but never reorder events of one type",
]

COMMON = "./pkg/controller/common"
COMPOSITE = "./pkg/controller/composite"
DECORATOR = "./pkg/controller/decorator"
HOOKS = "./pkg/hooks"
INFORMER = "./pkg/dynamic/informer"

PROPS = {
    "C05": {
        "level": "exploration",
        "technique": "property-based testing: bounded-exhaustive enumeration + rapid random generation (+ native go fuzz in thorough) against an independent reference merge, purity snapshots and idempotence",
        "level_text": ("Merge/ApplyUpdate are pure functions, so generated-input search against an independently written reference "
                       "merge decides the laws directly: the bounded universe of the quantifier is enumerated completely and "
                       "unbounded random/fuzzed triples extend it; exploration is the right level because no proof of the Go code is attempted"),
        "rule": ("triples (observed,lastApplied,desired) generated three ways: exhaustive enumeration of a bounded universe "
                 "(focus field drawn from a 28-value pool of scalars/maps/lists/list-maps under every conventional merge key, "
                 "placed top-level / nested / inside a list-map item), rapid-random JSON trees with lastApplied/desired derived as "
                 "edits of observed, and ApplyUpdate on the same triples wrapped as objects with system metadata, status and a "
                 "last-applied annotation; oracle = independent reference merge + purity + idempotence. Non-trivial = desired != "
                 "lastApplied, observed has a field in neither, and the triple has a list-map, a removal, a type clash or a "
                 "reordered list-map; distinct = distinct choice sequences among the non-trivial cases"),
        "jobs": [
            {"name": "regress", "pkg": COMMON, "tests": ["TestVerifC05Regressions"]},
            {"name": "merge-exh", "pkg": COMMON, "tests": ["TestVerifC05MergeExhaustive"],
             "timeout": {"quick": 600, "thorough": 3000}},
            {"name": "merge-rand", "pkg": COMMON, "tests": ["TestVerifC05MergeRandom"],
             "checks": {"quick": 40000, "thorough": 2000000}, "shards": {"quick": 4, "thorough": 12}},
            {"name": "merge-fuzz", "pkg": COMMON, "fuzz": "FuzzVerifC05Merge", "fuzztime": 90, "tests": ["FuzzVerifC05Merge"], "tiers": ["thorough"], "timeout": {"thorough": 600}},
            {"name": "apply-rand", "pkg": COMMON, "tests": ["TestVerifC05ApplyUpdateRandom"],
             "checks": {"quick": 40000, "thorough": 2000000}, "shards": {"quick": 4, "thorough": 12}},
        ],
    },
    "C06": {
        "level": "exploration", "sim": True,
        "technique": "property-based testing (rapid): generated controller configs, hook programs and child perturbations; oracle = request log of the API-server simulator judged against an independent reference merge and the strategy table",
        "level_text": "one sync per generated case against the simulated API server through the real clients; every child's requests are compared with what the strategy table allows; exploration of the configuration x perturbation space",
        "rule": ("rapid-generated cases: controller config (parent scope, 1-2 child kinds in core/named groups, every update method incl. unset and unknown, generateSelector) x hook program x per-child perturbation "
                 "(none, owned-field drift, foreign field, status-only, pending deletion, pending deletion + drift, externally deleted) x program change (none, content, child dropped, child added); "
                 "non-trivial = at least one existing desired child differs from its reference-merged desired state (the strategy switch is reached); distinct = distinct choice sequences"),
        "jobs": [
            {"name": "c06-composite", "pkg": COMPOSITE, "tests": ["TestVerifC06Composite"],
             "checks": {"quick": 3000, "thorough": 120000}, "shards": {"quick": 6, "thorough": 8}},
            {"name": "c06-decorator", "pkg": DECORATOR, "tests": ["TestVerifC06Decorator"],
             "checks": {"quick": 2000, "thorough": 60000}, "shards": {"quick": 4, "thorough": 6}},
        ],
    },
    "C01": {
        "level": "exploration", "sim": True,
        "technique": "property-based testing (rapid): generated configs x hook programs x seeded cluster contents x sync/edit histories; oracle = independent fixpoint (owned set == desired set, deep field containment) + quiescence of the request log and store",
        "level_text": "histories of syncs, parent edits and external child changes are run against the simulator; convergence and the absence of a hot loop are judged at the end by an oracle that recomputes the hook's desired set itself; bounded by an explicit sync budget",
        "rule": ("rapid-generated cases: controller kind x apply strategy x parent scope x 1-2 child kinds x every update method x generateSelector x finalize hook x hook program (incl. ordered) x "
                 "seeded store (matching orphans, stale owned, drifted, foreign-owned look-alikes, non-matching orphans, other-namespace namesakes) x history (syncs, parent edits, external delete/drift); "
                 "non-trivial = the first sync issued at least one child write and the initial store held at least one seeded object; distinct = distinct choice sequences"),
        "jobs": [
            {"name": "c01-known-probes", "pkg": COMPOSITE, "tests": ["TestVerifKnownProbesC01"]},
            {"name": "c01-regress", "pkg": COMPOSITE, "tests": ["TestVerifC01Regressions", "TestVerifC01RegressionsEcho", "TestVerifC01RegressionsSSAReplaced"]},
            {"name": "c01-composite", "pkg": COMPOSITE, "tests": ["TestVerifC01Composite"],
             "checks": {"quick": 2400, "thorough": 100000}, "shards": {"quick": 6, "thorough": 8}},
            {"name": "c01-decorator", "pkg": DECORATOR, "tests": ["TestVerifC01Decorator"],
             "checks": {"quick": 1200, "thorough": 50000}, "shards": {"quick": 4, "thorough": 6}},
        ],
    },
    "C02": {
        "level": "exploration", "sim": True,
        "technique": "property-based testing (rapid): generated look-alike stores, stale caches and outside-writer operations interposed between individual API requests of a sync; oracle = every accepted write judged against the simulator's pre-state",
        "level_text": "the harness owns caches and schedule: per-resource cache lag and interposed outside writers (incl. a second parent's full sync) are generated values; each accepted mutating request is judged against the live pre-state, which the stock fake clients cannot do",
        "rule": ("rapid-generated cases: config x hook program x seeded store with look-alikes in every role (also on desired names) x optional second parent with the same selector x 2-5 syncs, each with per-resource cache lag "
                 "and 0-3 outside operations (delete, delete+recreate unowned/foreign, controller-reference transfer, relabel, orphan, nested sync of the other parent) interposed before a chosen request; "
                 "non-trivial = an interposed operation actually ran between two controller requests, or a child write was accepted in a store holding seeded look-alikes; distinct = distinct choice sequences"),
        "jobs": [
            {"name": "c02-known-probes", "pkg": COMPOSITE, "tests": ["TestVerifKnownProbesC02"]},
            {"name": "c02-composite", "pkg": COMPOSITE, "tests": ["TestVerifC02Composite"],
             "checks": {"quick": 3000, "thorough": 150000}, "shards": {"quick": 6, "thorough": 8}},
            {"name": "c02-decorator", "pkg": DECORATOR, "tests": ["TestVerifC02Decorator"],
             "checks": {"quick": 1600, "thorough": 60000}, "shards": {"quick": 4, "thorough": 6}},
        ],
    },
    "C03": {
        "level": "exploration", "sim": True,
        "technique": "property-based testing (rapid): generated stores mixing every ownership role; oracle = the JSON actually sent to the in-memory webhook compared for exact equality with a view recomputed from the cache snapshot",
        "level_text": "the wire form of the hook request is what is judged (group keys, inner keys, object content); the expected view is recomputed independently from the cache snapshot taken before the sync and the accepted adoption edits of that sync",
        "rule": ("rapid-generated cases: config (namespaced/cluster-scoped parent, core/grouped/cluster-scoped child kinds, generateSelector, composite/decorator) x seeded store (owned, orphaned, foreign-owned, non-matching, other-namespace, "
                 "undeclared-kind, being-deleted; also on desired names) x 1-3 syncs with per-resource cache lag; non-trivial = the cache held at least one object that had to be reported and at least one that had to be left out; distinct = distinct choice sequences"),
        "jobs": [
            {"name": "c03-composite", "pkg": COMPOSITE, "tests": ["TestVerifC03Composite"],
             "checks": {"quick": 3000, "thorough": 150000}, "shards": {"quick": 6, "thorough": 8}},
            {"name": "c03-decorator", "pkg": DECORATOR, "tests": ["TestVerifC03Decorator"],
             "checks": {"quick": 1600, "thorough": 60000}, "shards": {"quick": 4, "thorough": 6}},
            {"name": "c03-restart", "pkg": COMPOSITE, "tests": ["TestVerifC03RestartChildCache"],
             "checks": {"quick": 18, "thorough": 96}, "shards": {"quick": 6, "thorough": 12}, "timeout": {"quick": 600, "thorough": 3400}},
        ],
    },
    "C04": {
        "level": "exploration", "sim": True,
        "technique": "property-based testing (rapid): generated owner-reference/label/deletion-state combinations, stale parent views and a second parent's sync interposed at request granularity; oracle = owner-reference diff of every accepted write + decision table recomputed from the cache snapshot",
        "level_text": "adopt/release decisions are judged per accepted write against the cache snapshot the sync read and the live pre-state; the live-parent recheck is verified from the request log; the one-controller-reference guarantee is judged with the real apimachinery validator inside the simulator",
        "rule": ("rapid-generated cases: selector forms (matchLabels, matchExpressions, generated) x seeded owner-reference lists (none, ours, another controller's, extra non-controller owners) x deletion states x "
                 "environment steps (live parent deleting / replaced while cached alive, children and ControllerRevisions orphaned) x per-resource cache lag x nested sync of a second parent with the same selector before a chosen request x "
                 "label-contract variants (desired child violating the selector, empty selector); non-trivial = an adopt/release decision was taken on a parent whose cached and live view disagree, a two-parent race ran, or the label contract was exercised"),
        "jobs": [
            {"name": "c04-composite", "pkg": COMPOSITE, "tests": ["TestVerifC04Composite"],
             "checks": {"quick": 4000, "thorough": 200000}, "shards": {"quick": 8, "thorough": 12}},
        ],
    },
    "C07": {
        "level": "exploration", "sim": True,
        "technique": "property-based testing: bounded-exhaustive enumeration of small rollouts + rapid random larger ones; oracle = an independently written reference model of one rollout step (claims, immediate moves, the single gated move, the health gate) compared with ControllerRevisions, request log and the Updated condition after every sync",
        "level_text": "every sync of a generated rollout history is compared with a reference model of the rollout step computed from the pre-state; small rollouts are enumerated exhaustively, larger ones sampled",
        "rule": ("rollout histories: 1-2 (exhaustive) or 1-5 (random) rolling children under RollingInPlace/RollingRecreate x status checks (none, type, type+status, type+status+reason) x default/custom field paths x hook with/without its own Updated condition; "
                 "per step a parent edit (none, revisioned template change, non-revisioned/revisioned 'other' change, scale up/down) and an environment choice per child (healthy, unhealthy, lagging observedGeneration, Ready for another reason, deleted); "
                 "non-trivial = at least one sync ran with two or more live revisions; distinct = distinct choice sequences; "
                 "plus a generated two-kind family (two rolling child kinds with different strategies, one with status checks: a child of the checked kind on the latest revision turns unhealthy while children of the other kind still wait - nothing may move)"),
        "jobs": [
            {"name": "c07-regress", "pkg": COMPOSITE, "tests": ["TestVerifC07Regressions"]},
            {"name": "c07-exh", "pkg": COMPOSITE, "tests": ["TestVerifC07Exhaustive"], "timeout": {"quick": 900, "thorough": 3400},
             "shards": {"quick": 14, "thorough": 14}},
            {"name": "c07-exh-deletes", "pkg": COMPOSITE, "tests": ["TestVerifC07ExhaustiveDeletes"], "tiers": ["thorough"], "timeout": {"thorough": 3400}, "shards": {"thorough": 14}},
            {"name": "c07-rand", "pkg": COMPOSITE, "tests": ["TestVerifC07Random"],
             "checks": {"quick": 1500, "thorough": 100000}, "shards": {"quick": 6, "thorough": 12}},
            {"name": "c07-crosskind", "pkg": COMPOSITE, "tests": ["TestVerifC07CrossKind"],
             "checks": {"quick": 300, "thorough": 20000}, "shards": {"quick": 2, "thorough": 8}},
        ],
    },
    "C08": {
        "level": "exploration", "sim": True,
        "technique": "property-based testing (rapid): generated rollouts under a fair environment; oracle = bounded liveness (all children at the latest desired state, Updated=True, one ControllerRevision left within 3n+6 syncs) + reference-model check of every RolloutWaiting",
        "level_text": "liveness is turned into a finite-history property by an explicit sync bound under an explicit fair environment (every child made healthy after each sync, caches fresh, no faults); termination under unfair environments is not claimed",
        "rule": ("rapid-generated rollouts of 1-6 rolling children x RollingInPlace/RollingRecreate x status checks x field paths x fixed/replicated names, one revisioned change and optionally a second change (revisioned or scale) 0-2 syncs later, "
                 "all under the fair environment; non-trivial = at least 2 rolling children; distinct = distinct choice sequences"),
        "jobs": [
            {"name": "c08-known-probes", "pkg": COMPOSITE, "tests": ["TestVerifKnownProbesC08"]},
            {"name": "c08-regress", "pkg": COMPOSITE, "tests": ["TestVerifC08Regressions", "TestVerifC08RegressionsScale"]},
            {"name": "c08-rand", "pkg": COMPOSITE, "tests": ["TestVerifC08Random"],
             "checks": {"quick": 1600, "thorough": 60000}, "shards": {"quick": 8, "thorough": 12}},
        ],
    },
    "C09": {
        "level": "fault_enumeration", "sim": True,
        "technique": "fault enumeration inside property-based testing: for generated rollout scenarios every request position of every rollout sync is disturbed (process crash with state rebuilt from the store, 500, lost response, conflict); oracle = request-order invariant, 'never ahead of the recorded revision' on the store at the cut, single claims after recovery, and differential comparison of the final state with the undisturbed run",
        "level_text": "single faults are enumerated exhaustively over the recorded request trace of each small scenario (bounded-exhaustive scenarios) and sampled for larger random ones; the harness owns the crash point: requests after the cut never reach the store and all process state (controller, caches, SSA memo) is rebuilt from the store",
        "rule": ("case = rollout scenario (as C07/C08: 1-2 children exhaustively, 1-4 random; both rolling methods; status checks; field paths; one or two parent changes) x one cut (sync index, request index) x kind (crash, 500 before commit, response lost after commit, 409); "
                 "the exhaustive driver visits every cut position x kind of every enumerated scenario; non-trivial = the cut falls inside a sync that has at least one ControllerRevision write and one child write; distinct = distinct choice sequences"),
        "jobs": [
            {"name": "c09-exh", "pkg": COMPOSITE, "tests": ["TestVerifC09Exhaustive"], "timeout": {"quick": 900, "thorough": 3400},
             "shards": {"quick": 12, "thorough": 14}},
            {"name": "c09-rand", "pkg": COMPOSITE, "tests": ["TestVerifC09Random"],
             "checks": {"quick": 900, "thorough": 40000}, "shards": {"quick": 3, "thorough": 12}},
            {"name": "c09-restart", "pkg": COMPOSITE, "tests": ["TestVerifC09RestartRevisionCache"],
             "checks": {"quick": 24, "thorough": 960}, "shards": {"quick": 6, "thorough": 12}, "timeout": {"quick": 600, "thorough": 3400}},
        ],
    },
    "C10": {
        "level": "exploration", "sim": True,
        "technique": "property-based testing (rapid, stateful histories): generated parent life cycles; oracle = invariants over the simulator's request log and the webhook log evaluated after every sync",
        "level_text": "parent life cycles (create, match/unmatch, delete with each propagation policy, finalize hook added/removed, GC progress, faults on the finalizer write) are generated as operation sequences and every sync is judged by a monitor that recomputes which hook must be called, whether children may be touched and when the finalizer may go",
        "rule": ("rapid-generated histories of 3-9 operations over one parent: sync (optionally with a 500 or a real conflict on the finalizer write), toggle the controller-selector label, delete (plain/Background/Foreground/Orphan), "
                 "add/remove the finalize hook (controller rebuilt), change a revisioned field (several live revisions for rolling composites), GC finalizer removed; hook answers: finalized iff no children / always / never / depending on the revision, children dropped all at once / kept / step by step; "
                 "composite and decorator; non-trivial = a sync ran while the parent was deleting or unmatched with a finalize hook configured; distinct = distinct choice sequences"),
        "jobs": [
            {"name": "c10-composite", "pkg": COMPOSITE, "tests": ["TestVerifC10Composite"],
             "checks": {"quick": 3000, "thorough": 150000}, "shards": {"quick": 6, "thorough": 8}},
            {"name": "c10-decorator", "pkg": DECORATOR, "tests": ["TestVerifC10Decorator"],
             "checks": {"quick": 2000, "thorough": 80000}, "shards": {"quick": 4, "thorough": 6}},
        ],
    },
    "C11": {
        "level": "exploration", "sim": True,
        "technique": "property-based testing (rapid): generated hook status values, stale/replaced parents and faults injected on the status write; oracle = parent object diff per accepted write + expected status recomputed from the hook exchange",
        "level_text": "status writes are judged per request against the simulator's pre/post state (only .status may change, only through the status endpoint, never on a replaced parent) and the final status is compared with hook status + generation of the parent JSON that went to the hook",
        "rule": ("rapid-generated cases: hook status mode (null, empty, nested, own conditions, own observedGeneration) x 2-5 syncs, each preceded by a live-parent change (spec edit, delete+recreate, status overwritten by someone) "
                 "with a possibly stale parent cache, and one fault (real conflict / parent deleted / parent replaced / 500 at the status PUT, 500 at a child write); non-trivial = a status write was attempted; distinct = distinct choice sequences"),
        "jobs": [
            {"name": "c11-regress", "pkg": COMPOSITE, "tests": ["TestVerifC11Regressions"]},
            {"name": "c11-composite", "pkg": COMPOSITE, "tests": ["TestVerifC11Composite"],
             "checks": {"quick": 4000, "thorough": 200000}, "shards": {"quick": 8, "thorough": 12}},
        ],
    },
    "C12": {
        "level": "fault_enumeration", "sim": True,
        "technique": "fault enumeration inside property-based testing: the fault-free request/hook trace of a sync is recorded, then every position x error kind is injected singly (exhaustively for a fixed scenario family, sampled for rapid-generated scenarios, plus random two-fault sequences); oracle = work-queue calls of the controller's own processNextWorkItem, per-child request isolation against the fault-free trace, and convergence to the fault-free final store",
        "level_text": "races are made real (the object is deleted / modified / created by an outside writer just before the request) so that 'benign' is judged on true API-server answers; server errors leave the store untouched or commit and lose the response; hook failures come from the in-memory webhook",
        "rule": ("case = scenario (fixed family: 4 update methods x 1-2 child kinds, composite and decorator, enumerated exhaustively; or rapid-generated) x one fault: API request position x {real race, 410, 422, 500, timeout before commit, timeout after commit} or hook call x {5xx, 429 Retry-After, connection refused, undecodable body}; "
                 "the work sync contains adoption, release, delete, update, create and the status write; non-trivial = a fault was injected (every case); distinct = distinct choice sequences"),
        "jobs": [
            {"name": "c12-fixed-composite", "pkg": COMPOSITE, "tests": ["TestVerifC12FixedExhaustive"], "shards": {"quick": 8, "thorough": 8}, "timeout": {"quick": 900, "thorough": 3000}},
            {"name": "c12-fixed-decorator", "pkg": DECORATOR, "tests": ["TestVerifC12FixedExhaustive"], "shards": {"quick": 4, "thorough": 4}, "timeout": {"quick": 900, "thorough": 3000}},
            {"name": "c12-rand-composite", "pkg": COMPOSITE, "tests": ["TestVerifC12Random"],
             "checks": {"quick": 800, "thorough": 40000}, "shards": {"quick": 2, "thorough": 8}},
            {"name": "c12-rand-decorator", "pkg": DECORATOR, "tests": ["TestVerifC12Random"],
             "checks": {"quick": 400, "thorough": 20000}, "shards": {"quick": 1, "thorough": 4}},
        ],
    },
    "C13": {
        "level": "exploration", "sim": True,
        "technique": "property-based testing (rapid) with a response grammar: a valid hook answer with one field replaced by every JSON type / boundary value, fields removed, raw non-JSON bodies, odd status codes (+ native go fuzzing of raw bodies in the thorough tier); oracle = no panic on the sync goroutine or any goroutine it spawns, and no child write when the response is rejected",
        "level_text": "malformed answers are served by the in-memory webhook through the real executor (strict and loose decoding) into real syncs; a panic anywhere in the sync (recovered on the sync goroutine, process death otherwise) is the violation",
        "rule": ("rapid-generated cases: config (composite incl. rolling and generateSelector, decorator; strict/loose; customize hook) x attacked hook (sync, finalize, customize) x mutation (field := hostile value over 23 values x ~25 paths, field deleted, 15 raw bodies, 10 status codes); "
                 "non-trivial = the served body/status differs from the valid answer; classes accepted/rejected are counted separately; distinct = distinct choice sequences"),
        "jobs": [
            {"name": "c13-regress", "pkg": COMPOSITE, "tests": ["TestVerifC13Regressions", "TestVerifC13RegressionsNull"]},
            {"name": "c13-composite", "pkg": COMPOSITE, "tests": ["TestVerifC13Composite"],
             "checks": {"quick": 6000, "thorough": 400000}, "shards": {"quick": 8, "thorough": 10}},
            {"name": "c13-fuzz", "pkg": COMPOSITE, "fuzz": "FuzzVerifC13Response", "fuzztime": 120, "tests": ["FuzzVerifC13Response"], "tiers": ["thorough"], "timeout": {"thorough": 900}},
            {"name": "c13-decorator", "pkg": DECORATOR, "tests": ["TestVerifC13Decorator"],
             "checks": {"quick": 3000, "thorough": 150000}, "shards": {"quick": 4, "thorough": 4}},
        ],
    },
    "C14": {
        "level": "exploration", "sim": True,
        "technique": "property-based testing (rapid): generated watch events (add/update/delete, tombstones, resync replays) on every role of object delivered directly to the controller's handlers with workers disabled; oracle = a reference predicate over the parent cache computing the exact set of parents that must be queued, compared with the recording work queue; queued keys must parse back to that parent",
        "level_text": "handlers are driven directly so that tombstones, resync replays and near-miss owner references are generated values; the expected set of woken parents is recomputed independently for every event",
        "rule": ("rapid-generated cases: config (composite/decorator, namespaced/cluster parent, generateSelector, ignoreStatusChanges, controller label/annotation selector, finalize hook, customize rules) x 4 parents (matching/unmatching, with/without finalizer, shared child selector, other namespace) x 4-9 events: "
                 "parent add/update(status|labels|annotations|generation|deleting)/delete/tombstone/resync, child add/update/same-rv/delete/tombstone with owner reference none|controller|wrong-uid|wrong-kind|wrong-group|plain-owner|other-version and matching/non-matching labels, related-object events entering/leaving the selection; "
                 "non-trivial = at least one event had a non-empty must-enqueue set; distinct = distinct choice sequences"),
        "jobs": [
            {"name": "c14-regress", "pkg": DECORATOR, "tests": ["TestVerifC14Regressions"]},
            {"name": "c14-composite", "pkg": COMPOSITE, "tests": ["TestVerifC14Composite"],
             "checks": {"quick": 4000, "thorough": 200000}, "shards": {"quick": 6, "thorough": 8}},
            {"name": "c14-decorator", "pkg": DECORATOR, "tests": ["TestVerifC14Decorator"],
             "checks": {"quick": 3000, "thorough": 120000}, "shards": {"quick": 4, "thorough": 6}},
            {"name": "c14-live-composite", "pkg": COMPOSITE, "tests": ["TestVerifC14LiveComposite"],
             "checks": {"quick": 24, "thorough": 4000}, "shards": {"quick": 4, "thorough": 8}, "timeout": {"quick": 600, "thorough": 3400}},
            {"name": "c14-live-decorator", "pkg": DECORATOR, "tests": ["TestVerifC14LiveDecorator"],
             "checks": {"quick": 18, "thorough": 3000}, "shards": {"quick": 3, "thorough": 6}, "timeout": {"quick": 600, "thorough": 3400}},
        ],
    },
    "C15": {
        "level": "exploration", "sim": True,
        "technique": "property-based testing (rapid): generated customize rule sets and related objects across namespaces/scopes; oracle = the related map actually sent to the in-memory webhook compared for exact equality with an independent reference selection, error on invalid rule mixes, customize-call counting per (UID, generation), and the select/trigger agreement checked by delivering an update of every selected object to the handlers",
        "level_text": "selection and triggering are two separate code paths; both are judged against one reference predicate: what is in the related map must equal the reference selection, and every object in it must wake the parent",
        "rule": ("rapid-generated cases: 1-3 rules over configmaps/widgets/cwidgets (matchLabels, empty selector, matchExpressions, namespace only, names only, namespace+names, invalid selector+names/namespace mix, foreign namespace, bare rule; several rules per resource) x "
                 "related objects rel-a/rel-b/rel-x in ns1/ns2 and cluster scope with/without the label x namespaced/cluster parents x composite/decorator x 2-4 syncs with parent generation bumps; "
                 "non-trivial = the rule set selected at least one and rejected at least one object, or was invalid; distinct = distinct choice sequences"),
        "jobs": [
            {"name": "c15-composite", "pkg": COMPOSITE, "tests": ["TestVerifC15Composite"],
             "checks": {"quick": 3000, "thorough": 150000}, "shards": {"quick": 6, "thorough": 8}},
            {"name": "c15-decorator", "pkg": DECORATOR, "tests": ["TestVerifC15Decorator"],
             "checks": {"quick": 1500, "thorough": 60000}, "shards": {"quick": 3, "thorough": 4}},
            {"name": "c15-live-composite", "pkg": COMPOSITE, "tests": ["TestVerifC15LiveComposite"],
             "checks": {"quick": 32, "thorough": 6000}, "shards": {"quick": 4, "thorough": 8}, "timeout": {"quick": 600, "thorough": 3400}},
            {"name": "c15-live-decorator", "pkg": DECORATOR, "tests": ["TestVerifC15LiveDecorator"],
             "checks": {"quick": 24, "thorough": 4000}, "shards": {"quick": 3, "thorough": 6}, "timeout": {"quick": 600, "thorough": 3400}},
        ],
    },
    "C16": {
        "level": "exploration", "sim": True,
        "technique": "property-based testing (rapid): generated targets, selectors and decorator hook answers; oracle = diff of the target before/after each sync against 'before + named label/annotation keys + status + own finalizer', plus request-log rules (no write when nothing changes, spec never touched, foreign attachments never written)",
        "level_text": "each sync of a generated decorator history is judged by comparing the stored target before and after with an expected object computed from the hook answer actually served",
        "rule": ("rapid-generated cases: target kind (with/without status subresource, namespaced/cluster) with foreign labels, annotations, finalizers, owners and status x label/annotation selector combinations x hook answers (label/annotation maps with additions, overwrites, nulls, or absent; status null/fixed/echo; finalized) x "
                 "attachments of other decorators/controllers x 2-5 syncs with target relabels, hook changes and spec edits in between; non-trivial = the answer changes at least one of labels/annotations/status/finalizer on the target; distinct = distinct choice sequences"),
        "jobs": [
            {"name": "c16-decorator", "pkg": DECORATOR, "tests": ["TestVerifC16Decorator"],
             "checks": {"quick": 4000, "thorough": 200000}, "shards": {"quick": 8, "thorough": 12}},
        ],
    },
    "C17": {
        "level": "exploration", "sim": True,
        "technique": "property-based testing: (1) a canonical-JSON fingerprint of every object in every harness-owned informer cache is taken before and after each sync of the sync-level generators (C01, C02, C04, C07, C10, C11, C12, C13, C16 - incl. faulted runs) and any difference is a violation; (2) race-detector builds run generated sets of distinct parents from several concurrent workers (rolling configurations for the parallel per-revision hook calls, customize hooks with lazily created related informers through the real factory) and compare the final store with a sequential run of the same syncs",
        "level_text": "part 1 is schedule independent; part 2 judges only interleavings that actually occur (the evidence reports how many syncs overlapped) - no claim of race freedom is made",
        "rule": ("fingerprint carrier cases: the generators of C01/C02/C04/C07/C10/C11/C12/C13 (composite) and C01/C02/C10/C13/C16 (decorator), verdict restricted to cache mutations; race cases: 2-6 parents x 2-8 workers x 3-5 rounds x rolling/non-rolling x customize on/off x SSA on/off, every parent synced twice per round with a revisioned change after round 1; "
                 "non-trivial = (part 1) the carrier case was non-trivial by its own rule, (part 2) at least two syncs overlapped in time; distinct = distinct choice sequences"),
        "level_note": "A1-A6 as in DESIGN.md; the race detector only reports races on executed interleavings; harness-owned indexers, the simulator, the recording queue and the webhook log are themselves mutex-protected",
        "jobs": [
            {"name": "c17-fp-composite", "pkg": COMPOSITE, "tests": ["TestVerifC17Fingerprint"],
             "checks": {"quick": 1600, "thorough": 80000}, "shards": {"quick": 6, "thorough": 8}},
            {"name": "c17-fp-decorator", "pkg": DECORATOR, "tests": ["TestVerifC17Fingerprint"],
             "checks": {"quick": 800, "thorough": 40000}, "shards": {"quick": 3, "thorough": 4}},
            {"name": "c17-race-composite", "pkg": COMPOSITE, "race": True, "tests": ["TestVerifC17Race"],
             "checks": {"quick": 48, "thorough": 1600}, "shards": {"quick": 3, "thorough": 8}, "timeout": {"quick": 900, "thorough": 3400}},
            {"name": "c17-race-decorator", "pkg": DECORATOR, "race": True, "tests": ["TestVerifC17Race"],
             "checks": {"quick": 24, "thorough": 600}, "shards": {"quick": 2, "thorough": 4}, "timeout": {"quick": 900, "thorough": 3400}},
        ],
    },
    "C18": {
        "level": "exploration",
        "technique": "model-based property testing: bounded-exhaustive enumeration of operation sequences (subscribe, add handler with/without own resync period, remove handlers, close, outside object events) over a real SharedInformerFactory running against the API-server simulator's LIST/WATCH, rapid-random longer sequences, and the same operations from concurrent goroutines under the race detector; oracle = open-subscription model vs watch streams seen by the server, per-handler event logs (replay on add, at-least-once delivery while registered, nothing after removal)",
        "level_text": "real informers, real reflectors and real goroutines against the simulator; ordering is made deterministic by condition barriers (poll until the watch count / handler log reaches the expected state, generous timeouts)",
        "rule": ("exhaustive: all sequences of length 4 (quick) / 5 (thorough) over 2 subscribers and 1 resource from the enabled operations; random: 2-3 subscribers, 1-2 resources, 4-17 operations; concurrent (race build): 2-5 goroutines with 3-10 operations each plus an outside writer; "
                 "non-trivial = the sequence contains a close-to-zero followed by a re-subscribe, or a remove/close while another subscriber is active (concurrent runs: always); distinct = distinct choice sequences"),
        "level_note": "A1 toolchain/libraries; A2 the simulator's LIST/WATCH (resourceVersion-ordered event log, one stream per watch) stands in for the API server; delivery is judged with timeouts of 5 s (a timeout is reported as a violation because every wait has a precise expected state); the race detector only reports races on interleavings that actually occur",
        "jobs": [
            {"name": "c18-exh", "pkg": INFORMER, "tests": ["TestVerifC18Exhaustive"], "shards": {"quick": 10, "thorough": 14}, "timeout": {"quick": 900, "thorough": 3400}},
            {"name": "c18-rand", "pkg": INFORMER, "tests": ["TestVerifC18Random"], "checks": {"quick": 300, "thorough": 4800}, "shards": {"quick": 6, "thorough": 12}, "timeout": {"quick": 900, "thorough": 3400}},
            {"name": "c18-race", "pkg": INFORMER, "race": True, "tests": ["TestVerifC18Concurrent"], "checks": {"quick": 60, "thorough": 3000}, "shards": {"quick": 2, "thorough": 6}, "timeout": {"quick": 900, "thorough": 3400}},
        ],
    },
    "C19": {
        "level": "exploration",
        "technique": "property-based testing: bounded-exhaustive enumeration of single calls (status x headers x bodies x strict/loose x ETag cache state) against a reference transport, and of all interleavings of 2 (quick+thorough) / 3 (thorough: exhaustive, quick: rapid-sampled) concurrent calls at the granularity header-enrichment / round trip / response-adjustment against a scripted server",
        "level_text": "the harness owns the schedule: each concurrent call is parked inside the scripted HTTP client at the three points the property names, so every interleaving is an enumerated value; the oracle is an explicit reference transport",
        "rule": ("single calls: 11 status codes x 8 bodies (valid, minimal, unknown field, duplicate field, case-variant field, invalid JSON, empty, wrong type) x strict/loose x ETag state (disabled, empty, hit, expired via a 1 ms TTL) x response ETag x 5 Retry-After forms x transport error, enumerated exhaustively; "
                 "schedules: all orders of E/R/A events of 2 or 3 calls x server content bumps before each round trip x warm/cold cache; configuration: 6 shapes of the webhook's etag block x the second answer (304/412/200) through the real constructor; timeouts: a real executor against a loopback HTTP server that stalls before the headers, after them or mid-body (200 ms timeout, verdict after at most 5 s); non-trivial = a 304/412 or If-None-Match path was taken, or two calls overlapped; distinct = distinct choice sequences"),
        "level_note": "A1 toolchain/libraries behave as documented; expiry of ETag cache entries uses the wall clock (1 ms TTL, 3 ms sleep); the scripted HTTP client replaces the network except in the timeout job, which talks to a loopback httptest server through the real (metrics-instrumented) client and reads the wall clock with a 25x margin",
        "jobs": [
            {"name": "c19-regress", "pkg": HOOKS, "tests": ["TestVerifC19Regressions"]},
            {"name": "c19-single", "pkg": HOOKS, "tests": ["TestVerifC19SingleCallExhaustive"], "shards": {"quick": 8, "thorough": 8}, "timeout": {"quick": 900, "thorough": 3000}},
            {"name": "c19-sched2", "pkg": HOOKS, "tests": ["TestVerifC19Schedules2", "TestVerifC19ExpireInFlight", "TestVerifC19CacheEntries", "TestVerifC19EtagReuse"]},
            {"name": "c19-timeouts", "pkg": HOOKS, "tests": ["TestVerifC19Timeouts", "TestVerifC19EtagConfig"]},
            {"name": "c19-default-timeout", "pkg": HOOKS, "tests": ["TestVerifC19DefaultTimeout"]},
            {"name": "c19-sched3", "pkg": HOOKS, "tests": ["TestVerifC19Schedules3"], "checks": {"quick": 3000, "thorough": 100}, "shards": {"quick": 2, "thorough": 12}, "timeout": {"quick": 900, "thorough": 3000}},
        ],
    },
    "C20": {
        "level": "exploration", "sim": True,
        "technique": "model-based property testing (rapid): generated histories of create / spec-changing update / metadata-only update / delete over one or two controller names with valid and invalid specs, driven through the real Metacontroller.Reconcile with real hosted controllers, real informers over the simulator and real http.Clients routed to an in-memory webhook; oracle = model map name -> running spec compared after every reconcile with the hosted set, hook calls per instance URL, informer subscription counts and watch streams",
        "level_text": "hosted controllers really run (workers, informers, webhook clients); barriers are condition polls with 5 s timeouts; each spec version has its own webhook URL so every hook call is attributable to one instance",
        "rule": ("rapid-generated histories of 2-8 events over 1-2 names; 19 spec variants: plain, timeout<=0, ETag enabled with both/either/no cache field, ETag disabled, resync period, customize hook, finalize hook, strict decoding, service reference with/without path, "
                 "unknown parent/child resource, no hooks, empty webhook, parent CRD without status subresource; parents already present in the cluster; non-trivial = the history has a spec-changing update or a delete after a start; distinct = distinct choice sequences"),
        "jobs": [
            {"name": "c20-regress", "pkg": COMPOSITE, "tests": ["TestVerifC20Regressions"]},
            {"name": "c20-status-gate", "pkg": COMPOSITE, "tests": ["TestVerifC20StatusGate"], "checks": {"quick": 2000, "thorough": 100000}, "shards": {"quick": 1, "thorough": 2}},
            {"name": "c20-composite", "pkg": COMPOSITE, "tests": ["TestVerifC20Composite"],
             "checks": {"quick": 120, "thorough": 6000}, "shards": {"quick": 8, "thorough": 12}, "timeout": {"quick": 900, "thorough": 3400}},
            {"name": "c20-decorator", "pkg": DECORATOR, "tests": ["TestVerifC20Decorator"],
             "checks": {"quick": 84, "thorough": 4000}, "shards": {"quick": 6, "thorough": 8}, "timeout": {"quick": 900, "thorough": 3400}},
        ],
    },
}

# Dimensions added to the generators after the seeded-mutation rounds 2-5 (see DESIGN.md 8.7); appended to the rule texts.
RULE_ADDENDA = {
    "C01": "Also generated: hook answers carrying a status stanza / own annotations / echoed observed annotations; discovery order; debug-verbosity logging; a matching orphan appearing under a replicated child name; scale-to-zero, foreign re-creation, scale back.",
    "C02": "Also generated: desired children carrying a plain owner or a foreign controller reference; an edit of the parent selector (hook following) between syncs; writes to objects the same sync released are judged separately from the known ownership-transfer finding. Adoption edits are legal only inside a namespaced parent's own namespace; namespaced parents that also declare a cluster-scoped child kind.",
    "C03": "Also generated: an ignored spec.selector on parents of generateSelector controllers; hook-set annotations; discovery order. A declared child kind hidden from discovery for one sync; the parent deleted while the parent cache is stale. A separate job on the real start-up path: a restarted controller whose child LIST is held back for 120-400 ms (thorough: also 11 s) must show every sync-hook call the complete set of existing children.",
    "C04": "Also generated: the parent replaced by an object with another selector; an owned child relabelled; a co-owner reference added to the object of a chosen request right before it. Negative-only selectors with unlabeled children; a 503 on the fresh parent read before an adoption. Orphaned children and ControllerRevisions that are terminating (held by a finalizer). Obligation side of release: after a succeeded sync of a live parent with a current cache no observed owned-but-not-matching child is still controlled by it. Rolling controllers whose hook labels children after the selector it is shown, with the selector edited in place mid-rollout and a child deleted; in every variant no child may be born with labels the worked-on parent's selector does not satisfy.",
    "C06": "Also generated: desired children with a status stanza, hook-set annotations or an explicitly empty list; an injected name-keyed list entry; someone already setting the field (and value) the hook is about to add; debug-verbosity logging.",
    "C07": "Also generated: hooks without any status; mixed matchLabels/matchExpressions selectors; condition styles of healthy children (timestamps with and without zone, a malformed neighbour condition). Purely additive edits of a revisioned field (a key appears / disappears).",
    "C08": "Also generated: a second rolling kind whose children share the names of the first (liveness rules only); mixed selectors; observedGeneration and condition styles. Additive edits as first or second change; rollbacks.",
    "C09": "Also generated: hook failure for the latest revision's call only / for superseded revisions' calls only (no write may follow); the parent deleted mid-rollout under a finalize hook that keeps the children; the not-ahead rule is judged at every sync boundary. Additive edits; a sync that runs on a ControllerRevision cache one sync behind; and a separate job on the real start-up path (Reconcile/Start, real informers): instance A brings 2-4 children up and is stopped, the template is edited, instance B starts while the simulator holds back its ControllerRevision LIST for 120-400 ms - no mutating request for children or revisions may arrive before that LIST is answered, and the rollout must complete afterwards (non-trivial = the LIST was actually held). Fault kinds also: every per-revision hook call answered 429; a ControllerRevision deletion that is not the last of its sync.",
    "C10": "Also generated: 404 and conflict-on-every-retry on the finalizer write; a foreign finalizer holding the parent; selectors rendered as matchExpressions. The finalize answer must re-create missing children; a matching orphan appears / a child is deleted externally mid-finalization.",
    "C11": "Also generated: sync answers that say finalized; discovery order (status subresource listed before the resource). The parent deleted and finalizing between syncs. The status subresource appearing after the process first looked the resource up (controller rebuilt in the same process); hooks that ask for a resync (queue keys compared with the canonical key).",
    "C12": "Also generated: plain 404 at every request; scenarios whose faulted sync is the finalize or finalizer-removal sync of a deleted parent; a customize hook whose calls are faulted too, with the related map after recovery compared; a 404 on a read of the parent must lead to a retry or to all non-parent work being done. 409 on a child delete (must be retried); 6-11 consecutive failed syncs; a restart under server-side apply.",
    "C13": "Also generated: per-field lists of type-correct but unusable values (selectors that cannot be converted, impossible names, versions, resources); after a customize attack related add/update/delete events are delivered to the handlers. Malformed answers during a rollout, optionally for superseded revisions only; in strict mode an unknown field of the real response types must be rejected. The Content-Length an answer claims (absurd, wrong, unknown); a customize answer with a status other than 200/429 must fail the sync.",
    "C14": "Also generated: selectors rendered as matchExpressions. A separate job on the live path (hosted controller started through Reconcile, real informers, handlers, queue and workers): two parents with one hook-made child each; 2-5 single events (child edited / deleted, parent edited / annotated / created) after the controller has gone quiet, each must lead to a hook call about the parent concerned and, for child events, to none about the other parent; with a finalize hook the case ends with the deletion of a finalizer-carrying parent (finalize hook called, children gone, parent let go) (non-trivial = every case). Parents whose keys sit in the rate limiter after a failed sync when the events arrive. The live job also draws ignoreStatusChanges and may start a second controller for the same parent resource on the warm informers (existing parents must be synced by it).",
    "C15": "Also generated: empty / expression-only selectors in invalid mixes; selectors that cannot be converted; parents deleted and held by the finalizer. A separate job on the live path (real Reconcile/Start and shared informers, the customize manager registering its own handlers): rules naming gadgets, the controller's own parent resource (peers) or its child resource, by label or not; 2-5 create/update/delete operations on related objects, each selected one must make the hook be called again for the parent with exactly the selected set (non-trivial = a selected object changed). One related resource momentarily missing from discovery.",
    "C16": "Also generated: target deletion, target replacement and a stale target cache between syncs; selectors as matchExpressions; empty-string patch values; every target write is judged on the live object before/after it (UID, spec, foreign metadata).",
    "C17": "Carriers now include the C08 and C09 generators (with stored ControllerRevisions relisted in another order). The concurrent-vs-sequential comparison includes the related-informer subscription counts and the related map of every hook call. Parents in two namespaces.",
    "C18": "Also generated: failed subscribes to a resource discovery does not know yet (installed later); a handler still replaying while an object appears; widgets subscribed through a second served version with the delivered apiVersion checked; handlers with their own resync take 3 ms per event; every informer call runs under a 10 s watchdog. An object deleted and re-created under the same name; at most three watch breaks per case (the reflector's pause doubles). The next LIST after a watch break answered 404 once.",
    "C19": "Single calls also vary what the cache was warmed with (well-formed, unknown field, duplicate field); cache entries: first answer (200, 200 cut off mid-body, 500/404 with an ETag, undecodable 200) x second call about the same parent / another kind / namespace / name x 304/412/200. Calls may repeat their request (answered by the scripted server on its own with current content or a decodable error page, outcome judged). ETag entries that expire before the second call (timeout shorter / longer than the cleanup interval, real constructor); a never-answering hook under an unset, zero and negative timeout (bounded by the 10 s default). Call sequences against a server whose content changes with a new ETag, changes while keeping the ETag, or stays (304/412).",
    "C20": "Also generated: a customize hook that names related resources, with the related LIST or the customize webhook hanging while the controller is stopped. Reconcile runs under a 30 s watchdog. The status-subresource gate on generated multi-version CRDs (1-3 versions, storage flag, status per version): the version the controller names decides.",
    "C05": "Also generated: List-maps unique under the merge key that takes precedence and repeated under a later one (one volume mounted at two paths). Explicit nulls in observed system metadata fields and status.",
}
for _k, _v in RULE_ADDENDA.items():
    PROPS[_k]["rule"] = PROPS[_k]["rule"] + " " + _v
