package decorator

import (
	"testing"

	vs "metacontroller/pkg/internal/verifsim"
	vw "metacontroller/pkg/internal/verifworld"
)

func TestVerifC06Decorator(t *testing.T) {
	vs.Run(t, "C06", func(c *vs.Case) error { return vw.PropC06(c, decoratorFactory, "decorator") })
}

func TestVerifC01Decorator(t *testing.T) {
	vs.Run(t, "C01", func(c *vs.Case) error { return vw.PropC01(c, decoratorFactory, "decorator") })
}

func TestVerifC02Decorator(t *testing.T) {
	vs.Run(t, "C02", func(c *vs.Case) error { return vw.PropC02(c, decoratorFactory, "decorator") })
}

func TestVerifC03Decorator(t *testing.T) {
	vs.Run(t, "C03", func(c *vs.Case) error { return vw.PropC03(c, decoratorFactory, "decorator") })
}

func TestVerifC10Decorator(t *testing.T) {
	vs.Run(t, "C10", func(c *vs.Case) error { return vw.PropC10(c, decoratorFactory, "decorator") })
}

func TestVerifC12FixedExhaustive(t *testing.T) {
	vs.RunExhaustive(t, "C12", 2_000_000, func(c *vs.Case) error { return vw.PropC12(c, decoratorFactory, "decorator", true) })
}

func TestVerifC12Random(t *testing.T) {
	vs.Run(t, "C12", func(c *vs.Case) error { return vw.PropC12(c, decoratorFactory, "decorator", false) })
}

func TestVerifC13Decorator(t *testing.T) {
	vs.Run(t, "C13", func(c *vs.Case) error { return vw.PropC13(c, decoratorFactory, "decorator") })
}

func TestVerifC16Decorator(t *testing.T) {
	vs.Run(t, "C16", func(c *vs.Case) error { return vw.PropC16(c, decoratorFactory) })
}
