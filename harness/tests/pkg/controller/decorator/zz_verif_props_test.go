package decorator

import (
	"testing"

	"k8s.io/apimachinery/pkg/apis/meta/v1/unstructured"
	"k8s.io/client-go/tools/cache"

	vs "metacontroller/pkg/internal/verifsim"
	vw "metacontroller/pkg/internal/verifworld"
)

func TestVerifC06Decorator(t *testing.T) {
	vs.Run(t, "C06", func(c *vs.Case) error { return vw.PropC06(c, decoratorFactory, "decorator") })
}

func TestVerifC01Decorator(t *testing.T) {
	vs.Run(t, "C01", func(c *vs.Case) error { return vw.PropC01(c, decoratorFactory, "decorator") })
}

func TestVerifC02Decorator(t *testing.T) {
	vs.Run(t, "C02", func(c *vs.Case) error { return vw.PropC02(c, decoratorFactory, "decorator") })
}

func TestVerifC03Decorator(t *testing.T) {
	vs.Run(t, "C03", func(c *vs.Case) error { return vw.PropC03(c, decoratorFactory, "decorator") })
}

func TestVerifC10Decorator(t *testing.T) {
	vs.Run(t, "C10", func(c *vs.Case) error { return vw.PropC10(c, decoratorFactory, "decorator") })
}

func TestVerifC12FixedExhaustive(t *testing.T) {
	vs.RunExhaustive(t, "C12", 2_000_000, func(c *vs.Case) error { return vw.PropC12(c, decoratorFactory, "decorator", true) })
}

func TestVerifC12Random(t *testing.T) {
	vs.Run(t, "C12", func(c *vs.Case) error { return vw.PropC12(c, decoratorFactory, "decorator", false) })
}

func TestVerifC13Decorator(t *testing.T) {
	vs.Run(t, "C13", func(c *vs.Case) error { return vw.PropC13(c, decoratorFactory, "decorator") })
}

func TestVerifC16Decorator(t *testing.T) {
	vs.Run(t, "C16", func(c *vs.Case) error { return vw.PropC16(c, decoratorFactory) })
}

func TestVerifC14Decorator(t *testing.T) {
	vs.Run(t, "C14", func(c *vs.Case) error { return vw.PropC14(c, decoratorFactory, "decorator") })
}

func TestVerifC14Regressions(t *testing.T) {
	vs.RunFixed(t, "C14", map[string]func() error{
		// F5: a parent delete delivered as a tombstone must be queued under a key sync() can parse
		"decorator-parent-delete-tombstone-key": func() error {
			parent := &unstructured.Unstructured{Object: map[string]any{"apiVersion": "ex.io/v1", "kind": "Thing",
				"metadata": map[string]any{"name": "p1", "namespace": "ns1"}}}
			key, err := parentQueueKey(cache.DeletedFinalStateUnknown{Key: "ns1/p1", Obj: parent})
			if err != nil {
				return vs.Violf("C14/unparsable-queue-key", "no key for a parent tombstone: %v", err)
			}
			if _, _, ns, name, err := splitParentQueueKey(key); err != nil || ns != "ns1" || name != "p1" {
				return vs.Violf("C14/unparsable-queue-key", "the handler enqueued key %q for a deleted parent, which sync cannot parse back (%v)", key, err)
			}
			return nil
		},
	})
}

func TestVerifC15Decorator(t *testing.T) {
	vs.Run(t, "C15", func(c *vs.Case) error { return vw.PropC15(c, decoratorFactory, "decorator") })
}

func TestVerifC14LiveDecorator(t *testing.T) {
	vs.Run(t, "C14", func(c *vs.Case) error {
		env := vw.NewC20Env()
		return vw.PropC14Live(c, "decorator", env, newC20DecoratorDriver(env))
	})
}

func TestVerifC15LiveDecorator(t *testing.T) {
	vs.Run(t, "C15", func(c *vs.Case) error {
		env := vw.NewC20Env()
		return vw.PropC15Live(c, "decorator", env, newC20DecoratorDriver(env))
	})
}

func TestVerifC20Decorator(t *testing.T) {
	vs.Run(t, "C20", func(c *vs.Case) error {
		env := vw.NewC20Env()
		return vw.PropC20(c, "decorator", env, newC20DecoratorDriver(env))
	})
}

func TestVerifC17Fingerprint(t *testing.T) {
	vs.Run(t, "C17", func(c *vs.Case) error {
		var err error
		switch c.Int(5) {
		case 0:
			c.Class("carrier:C01")
			err = vw.PropC01(c, decoratorFactory, "decorator")
		case 1:
			c.Class("carrier:C02")
			err = vw.PropC02(c, decoratorFactory, "decorator")
		case 2:
			c.Class("carrier:C16")
			err = vw.PropC16(c, decoratorFactory)
		case 3:
			c.Class("carrier:C10")
			err = vw.PropC10(c, decoratorFactory, "decorator")
		default:
			c.Class("carrier:C13")
			err = vw.PropC13(c, decoratorFactory, "decorator")
		}
		return vw.OnlyC17(err)
	})
}

func TestVerifC17Race(t *testing.T) {
	vs.Run(t, "C17", func(c *vs.Case) error { return vw.PropC17Race(c, decoratorFactory, "decorator") })
}
