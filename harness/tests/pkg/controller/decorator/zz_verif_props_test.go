package decorator

import (
	"testing"

	vs "metacontroller/pkg/internal/verifsim"
	vw "metacontroller/pkg/internal/verifworld"
)

func TestVerifC06Decorator(t *testing.T) {
	vs.Run(t, "C06", func(c *vs.Case) error { return vw.PropC06(c, decoratorFactory, "decorator") })
}

func TestVerifC01Decorator(t *testing.T) {
	vs.Run(t, "C01", func(c *vs.Case) error { return vw.PropC01(c, decoratorFactory, "decorator") })
}

func TestVerifC02Decorator(t *testing.T) {
	vs.Run(t, "C02", func(c *vs.Case) error { return vw.PropC02(c, decoratorFactory, "decorator") })
}

func TestVerifC03Decorator(t *testing.T) {
	vs.Run(t, "C03", func(c *vs.Case) error { return vw.PropC03(c, decoratorFactory, "decorator") })
}

func TestVerifC10Decorator(t *testing.T) {
	vs.Run(t, "C10", func(c *vs.Case) error { return vw.PropC10(c, decoratorFactory, "decorator") })
}
