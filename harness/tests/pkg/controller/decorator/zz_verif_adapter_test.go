package decorator

import (
	"context"
	"encoding/json"
	"fmt"
	"os"
	"testing"
	"time"

	"metacontroller/pkg/controller/common"
	"metacontroller/pkg/controller/common/customize"
	"metacontroller/pkg/controller/common/finalizer"
	dynamicinformer "metacontroller/pkg/dynamic/informer"
	"metacontroller/pkg/hooks"
	vw "metacontroller/pkg/internal/verifworld"
	"metacontroller/pkg/logging"

	"github.com/go-logr/logr"
	"k8s.io/apimachinery/pkg/runtime/schema"
	"k8s.io/apimachinery/pkg/types"
	"k8s.io/klog/v2"
	"sigs.k8s.io/controller-runtime/pkg/reconcile"
)

func TestMain(m *testing.M) {
	logging.Logger = logr.Discard()
	klog.SetLogger(logr.Discard())
	klog.LogToStderr(false)
	os.Exit(m.Run())
}

// decoratorAdapter drives a real decoratorController built over a verif world.
type decoratorAdapter struct {
	c   *decoratorController
	w   *vw.World
	cfg *vw.CtlConfig
}

func newDecoratorAdapter(w *vw.World, cfg *vw.CtlConfig) (*decoratorAdapter, error) {
	dc := cfg.DecoratorObject(w.Sim)
	mkHook := func(enabled bool, url string, ht common.HookType) hooks.Hook {
		if !enabled {
			return hooks.NewVerifDisabledHook()
		}
		return hooks.NewVerifHook(w.Hooks, url, ht, cfg.Mode(), cfg.Etag, time.Hour, nil)
	}
	c := &decoratorController{
		dc:              dc,
		resources:       w.Resources,
		dynClient:       w.DynClient,
		parentKinds:     make(common.GroupKindMap),
		parentInformers: make(common.InformerMap),
		childInformers:  make(common.InformerMap),
		queue:           w.Queue,
		numWorkers:      1,
		eventRecorder:   vw.NopRecorder{},
		finalizer:       finalizer.NewManager("metacontroller.io/decoratorcontroller-"+dc.Name, dc.Spec.Hooks.Finalize != nil),
		syncHook:        mkHook(cfg.SyncHook, vw.SyncURL, common.SyncHook),
		finalizeHook:    mkHook(cfg.FinalizeHook, vw.FinalizeURL, common.FinalizeHook),
		logger:          logr.Discard(),
		stopCh:          make(chan struct{}),
	}
	var err error
	c.customize, err = customize.NewCustomizeManager(dc.Name, c.enqueueParentObject, dc, w.DynClient,
		relatedFactory(w, cfg), c.parentInformers, c.parentKinds, c.logger, common.CompositeController)
	if err != nil {
		return nil, err
	}
	// (through an interface assertion: the harness must still build when the manager's start-up API changes)
	if st, ok := any(c.customize).(interface{ Start(chan struct{}) }); ok {
		st.Start(c.stopCh)
	}
	c.parentSelector, err = newDecoratorSelector(w.Resources, dc)
	if err != nil {
		return nil, err
	}
	for _, parent := range dc.Spec.Resources {
		resource := w.Resources.Get(parent.APIVersion, parent.Resource)
		if resource == nil {
			return nil, fmt.Errorf("can't find resource %q in apiVersion %q", parent.Resource, parent.APIVersion)
		}
		c.parentKinds.Set(schema.GroupKind{Group: resource.Group, Kind: resource.Kind}, resource)
		gv, _ := schema.ParseGroupVersion(parent.APIVersion)
		c.parentInformers.Set(gv.WithResource(parent.Resource), w.InformerFor(parent.APIVersion, parent.Resource))
	}
	c.updateStrategy, err = makeUpdateStrategyMap(w.Resources, dc)
	if err != nil {
		return nil, err
	}
	for _, child := range dc.Spec.Attachments {
		gv, _ := schema.ParseGroupVersion(child.APIVersion)
		c.childInformers.Set(gv.WithResource(child.Resource), w.Informers[child.Resource])
	}
	if cfg.CustomizeHook {
		c.customize.VerifSetHook(hooks.NewVerifHook(w.Hooks, vw.CustomizeURL, common.CustomizeHook, cfg.Mode(), false, 0, nil))
		for _, d := range w.Sim.Defs() {
			if d.Resource == "controllerrevisions" || cfg.RealRelatedInformers {
				continue
			}
			c.customize.VerifSetRelatedInformer(d.GVR(), w.Informers[d.Resource])
		}
	}
	return &decoratorAdapter{c: c, w: w, cfg: cfg}, nil
}

func (a *decoratorAdapter) Sync(key string) error { return a.c.sync(key) }

func (a *decoratorAdapter) Process(key string) {
	a.w.Queue.Push(key)
	a.c.processNextWorkItem()
}

func (a *decoratorAdapter) KeyFor(parent map[string]any) string {
	m, _ := parent["metadata"].(map[string]any)
	ns, _ := m["namespace"].(string)
	name, _ := m["name"].(string)
	return fmt.Sprintf("%v:%v:%s:%s", parent["apiVersion"], parent["kind"], ns, name)
}

func decoratorFactory(w *vw.World, cfg *vw.CtlConfig) (vw.Controller, error) {
	if cfg.Kind != "decorator" {
		return nil, fmt.Errorf("decoratorFactory: kind %q", cfg.Kind)
	}
	return newDecoratorAdapter(w, cfg)
}

// ---- vw.EventSink ----

func (a *decoratorAdapter) ParentAdd(obj any)         { a.c.enqueueParentObject(obj) }
func (a *decoratorAdapter) ParentUpdate(old, cur any) { a.c.updateParentObject(old, cur) }
func (a *decoratorAdapter) ParentDelete(obj any)      { a.c.enqueueParentObject(obj) }
func (a *decoratorAdapter) ChildAdd(obj any)          { a.c.onChildAdd(obj) }
func (a *decoratorAdapter) ChildUpdate(old, cur any)  { a.c.onChildUpdate(old, cur) }
func (a *decoratorAdapter) ChildDelete(obj any)       { a.c.onChildDelete(obj) }
func (a *decoratorAdapter) RelatedAdd(obj any)        { a.c.customize.VerifOnRelatedAdd(obj) }
func (a *decoratorAdapter) RelatedUpdate(old, cur any) {
	a.c.customize.VerifOnRelatedUpdate(old, cur)
}
func (a *decoratorAdapter) RelatedDelete(obj any) { a.c.customize.VerifOnRelatedDelete(obj) }
func (a *decoratorAdapter) ParseKey(key string) (string, string, error) {
	_, _, ns, name, err := splitParentQueueKey(key)
	return ns, name, err
}

// ---- C20: Metacontroller.Reconcile driver ----

type c20DecoratorDriver struct{ mc *Metacontroller }

func newC20DecoratorDriver(env *vw.C20Env) *c20DecoratorDriver {
	return &c20DecoratorDriver{mc: &Metacontroller{
		k8sClient:            env.K8s,
		resources:            env.W.Resources,
		dynClient:            env.W.DynClient,
		dynInformers:         env.Factory,
		eventRecorder:        vw.NopRecorder{},
		decoratorControllers: make(map[string]*decoratorController),
		numWorkers:           2,
		logger:               logr.Discard(),
	}}
}

func (d *c20DecoratorDriver) Reconcile(name string) error {
	_, err := d.mc.Reconcile(context.Background(), reconcile.Request{NamespacedName: types.NamespacedName{Name: name}})
	return err
}

func (d *c20DecoratorDriver) Running() map[string][2]string {
	out := map[string][2]string{}
	for n, c := range d.mc.decoratorControllers {
		b, _ := json.Marshal(c.dc.Spec)
		out[n] = [2]string{fmt.Sprintf("%p", c), string(b)}
	}
	return out
}

func relatedFactory(w *vw.World, cfg *vw.CtlConfig) *dynamicinformer.SharedInformerFactory {
	if cfg.RealRelatedInformers {
		f := dynamicinformer.NewSharedInformerFactory(w.DynClient, 10*time.Minute)
		w.RelatedRefs = f.VerifRefCounts
		return f
	}
	return &dynamicinformer.SharedInformerFactory{}
}
