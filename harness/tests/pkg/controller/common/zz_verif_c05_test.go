package common

import (
	"encoding/json"
	"fmt"
	"reflect"
	"sort"
	"testing"

	dynamicapply "metacontroller/pkg/dynamic/apply"
	vs "metacontroller/pkg/internal/verifsim"

	"k8s.io/apimachinery/pkg/apis/meta/v1/unstructured"
	k8sjson "k8s.io/apimachinery/pkg/util/json"
)

// ---- C05: three-way merge laws ------------------------------------------------

type c05Triple struct {
	O, L, D map[string]any
}

func (t c05Triple) describe() any {
	return map[string]any{"observed": t.O, "lastApplied": t.L, "desired": t.D}
}

// checkMergeTriple is the oracle for dynamicapply.Merge on one triple.
func checkMergeTriple(c *vs.Case, tr c05Triple) error {
	o0, l0, d0 := vs.CopyMap(tr.O), vs.CopyMap(tr.L), vs.CopyMap(tr.D)
	ref := vs.RefMerge(vs.CopyMap(tr.O), vs.CopyMap(tr.L), vs.CopyMap(tr.D))

	got, err := dynamicapply.Merge(tr.O, tr.L, tr.D)

	// purity of Merge: none of the three inputs changes
	if !reflect.DeepEqual(tr.O, o0) {
		return vs.Violf("C05/mutates-observed", "Merge mutated observed: before %v after %v", o0, tr.O)
	}
	if !reflect.DeepEqual(tr.L, l0) {
		return vs.Violf("C05/mutates-lastapplied", "Merge mutated lastApplied: before %v after %v", l0, tr.L)
	}
	if !reflect.DeepEqual(tr.D, d0) {
		return vs.Violf("C05/mutates-desired", "Merge mutated desired: before %v after %v", d0, tr.D)
	}
	if ref.ListMap {
		c.Class("listmap")
	}
	if ref.Removal {
		c.Class("removal")
	}
	if ref.Reordered {
		c.Class("reordered-listmap")
	}
	if ref.Clash {
		c.Class("clash")
	}
	if ref.Unspecified {
		c.Class("unspecified-dupkeys")
		return nil
	}
	if ref.Foreign && !reflect.DeepEqual(tr.D, tr.L) && (ref.ListMap || ref.Removal || ref.Clash || ref.Reordered) {
		c.NonTrivial()
	}
	if err != nil {
		if ref.Clash || ref.LastClash {
			c.Class("error-expected")
			return nil
		}
		return vs.Violf("C05/unexpected-error", "Merge returned error %v but no type clash exists", err)
	}
	if ref.Clash {
		if e := c.Known(vs.Violf("C05/clash-not-reported", "desired/observed type clash at desired%s silently ignored: observed=%v lastApplied=%v desired=%v result=%v", ref.ClashPath, o0, l0, d0, got)); e != nil {
			return e
		}
		return nil
	}
	if ok, why := vs.RefEqual(got, ref.Value); !ok {
		return vs.Violf("C05/merge-differs", "Merge result differs from reference at %s\nobserved=%s\nlastApplied=%s\ndesired=%s\ngot=%s\nwant=%s", why, js(o0), js(l0), js(d0), js(got), js(ref.Value))
	}
	if ref.WildUsed {
		c.Class("desired-null-over-container")
		return nil
	}
	if vs.RefMerge(vs.CopyMap(got), vs.CopyMap(d0), vs.CopyMap(d0)).Unspecified {
		c.Class("second-merge-dupkeys")
		return nil
	}
	// idempotence: re-applying desired (now also the last-applied record) to the result changes nothing
	again, err := dynamicapply.Merge(got, tr.D, tr.D)
	if err != nil {
		return vs.Violf("C05/idempotence-error", "Merge(result, desired, desired) errored: %v", err)
	}
	if !reflect.DeepEqual(again, got) {
		return vs.Violf("C05/not-idempotent", "Merge(r,d,d) != r\nr=%s\nd=%s\nagain=%s", js(got), js(d0), js(again))
	}
	return nil
}

func js(v any) string {
	b, err := json.Marshal(scrub(v))
	if err != nil {
		return fmt.Sprintf("%v", v)
	}
	return string(b)
}

func scrub(v any) any {
	switch t := v.(type) {
	case map[string]any:
		out := map[string]any{}
		for k, x := range t {
			out[k] = scrub(x)
		}
		return out
	case []any:
		out := make([]any, len(t))
		for i, x := range t {
			out[i] = scrub(x)
		}
		return out
	default:
		if v == vs.Wild {
			return "<any>"
		}
		if v == vs.Absent {
			return "<absent>"
		}
		return v
	}
}

// ---- bounded universe (exhaustive) -------------------------------------------

// focus pool: every shape the quantifier lists.
func c05Pool() []any {
	lm := func(items ...map[string]any) []any {
		out := []any{}
		for _, it := range items {
			out = append(out, it)
		}
		return out
	}
	return []any{
		"s1", "s2", int64(1), nil, true,
		map[string]any{},
		map[string]any{"x": "s1"},
		map[string]any{"x": "s2", "y": "s1"},
		map[string]any{"x": map[string]any{"z": "s1"}},
		map[string]any{"x": nil},
		[]any{},
		[]any{"s1"},
		[]any{"s1", "s2"},
		lm(map[string]any{"name": "a", "v": "s1"}),
		lm(map[string]any{"name": "a", "v": "s2"}),
		lm(map[string]any{"name": "a", "v": "s1"}, map[string]any{"name": "b", "v": "s1"}),
		lm(map[string]any{"name": "b", "v": "s2"}, map[string]any{"name": "a", "v": "s1"}),
		lm(map[string]any{"name": "b", "w": "s1"}),
		lm(map[string]any{"port": int64(80), "v": "s1"}),
		lm(map[string]any{"port": int64(80), "name": "a", "v": "s2"}),
		lm(map[string]any{"containerPort": int64(80), "v": "s1"}, map[string]any{"containerPort": int64(81)}),
		lm(map[string]any{"mountPath": "/a", "v": "s1"}),
		lm(map[string]any{"uid": "u1", "v": "s1"}, map[string]any{"uid": "u2"}),
		lm(map[string]any{"ip": "1.1.1.1", "v": "s1"}),
		lm(map[string]any{"path": "/p", "v": "s1"}, map[string]any{"path": "/q"}),
		lm(map[string]any{"k": "a", "v": "s1"}),
		lm(map[string]any{"name": "a", "v": map[string]any{"z": "s1"}}),
		lm(map[string]any{"name": "a", "v": "s1"}, map[string]any{"name": "c", "v": "s1"}, map[string]any{"name": "b"}),
		lm(map[string]any{"port": int64(1000620000), "v": "s1"}, map[string]any{"port": int64(2147483647), "v": "s2"}),
		lm(map[string]any{"port": int64(1000620000), "v": "s2"}),
		// lists of objects under field names that are NOT merge keys, with repeated values (plain lists: replaced as a whole)
		lm(map[string]any{"type": "Resource", "v": "cpu"}, map[string]any{"type": "Resource", "v": "memory"}, map[string]any{"type": "Pods", "v": "qps"}),
		lm(map[string]any{"type": "Resource", "v": "cpu"}, map[string]any{"type": "Pods", "v": "qps"}),
		lm(map[string]any{"key": "a", "operator": "In"}, map[string]any{"key": "a", "operator": "NotIn"}),
		lm(map[string]any{"kind": "User", "id": "x"}, map[string]any{"kind": "User", "id": "y"}),
		// unique under the conventional key that takes precedence (mountPath), repeated under a later one (name):
		// one volume mounted at two paths
		lm(map[string]any{"name": "data", "mountPath": "/a"}, map[string]any{"name": "data", "mountPath": "/b", "v": "s1"}),
		lm(map[string]any{"name": "data", "mountPath": "/b", "v": "s2"}),
		// the same for the pair (port, name): one service name on two ports - `port` is tried before `name`
		lm(map[string]any{"name": "dns", "port": int64(53)}, map[string]any{"name": "dns", "port": int64(5353), "v": "s1"}),
		lm(map[string]any{"name": "dns", "port": int64(5353), "v": "s2"}),
	}
}

var c05PoolCache = c05Pool()

func pickFocus(c *vs.Case) any {
	i := c.Int(len(c05PoolCache) + 1)
	if i == len(c05PoolCache) {
		return vs.Absent
	}
	return vs.DeepCopyAny(c05PoolCache[i])
}

func pickSmall(c *vs.Case) any {
	switch c.Int(3) {
	case 0:
		return vs.Absent
	case 1:
		return "s1"
	default:
		return "s2"
	}
}

func put(m map[string]any, k string, v any) {
	if v != vs.Absent {
		m[k] = v
	}
}

// genBounded builds a triple from the bounded universe: one focus field f with
// observed/lastApplied/desired each drawn from the pool (or absent), placed at
// the top level, inside a nested map, or inside an item of a name-keyed list;
// optionally a second field g that exercises keep/remove/replace of scalars.
func genBounded(c *vs.Case, withG bool) c05Triple {
	placement := c.Int(3)
	fo, fl, fd := pickFocus(c), pickFocus(c), pickFocus(c)
	mk := func(f, g any, who string) map[string]any {
		inner := map[string]any{}
		put(inner, "f", f)
		put(inner, "g", g)
		switch placement {
		case 0:
			return inner
		case 1:
			if who == "o" {
				inner["foreign"] = "keep"
			}
			return map[string]any{"n": inner}
		default:
			inner["name"] = "it"
			items := []any{inner}
			if who == "o" {
				items = []any{map[string]any{"name": "other", "f": "untouched"}, inner}
			}
			return map[string]any{"items": items}
		}
	}
	var go_, gl, gd any = vs.Absent, vs.Absent, vs.Absent
	if withG {
		go_, gl, gd = pickSmall(c), pickSmall(c), pickSmall(c)
	}
	c.Class("placement-%d", placement)
	return c05Triple{O: mk(fo, go_, "o"), L: mk(fl, gl, "l"), D: mk(fd, gd, "d")}
}

func TestVerifC05MergeExhaustive(t *testing.T) {
	withG := vs.Tier() == "thorough"
	vs.RunExhaustive(t, "C05", 5_000_000, func(c *vs.Case) error {
		tr := genBounded(c, withG)
		c.Describe(tr.describe)
		return checkMergeTriple(c, tr)
	})
}

// ---- random triples ------------------------------------------------------------

func genRandomTriple(c *vs.Case) c05Triple {
	depth := 1 + c.Int(3)
	o := vs.GenMap(c, depth, true)
	if len(o) == 0 || c.Prob(1, 4) {
		o["spec"] = vs.GenMap(c, depth, true)
	}
	allowClash := c.Prob(1, 4)
	l := vs.EditMap(c, o, depth, true, allowClash)
	var d map[string]any
	if c.Prob(1, 3) {
		d = vs.EditMap(c, l, depth, true, allowClash)
	} else {
		d = vs.EditMap(c, o, depth, true, allowClash)
	}
	if c.Prob(1, 10) {
		l = nil
	}
	if c.Prob(1, 8) {
		// someone else's entries repeat a merge-key value (ports 53/TCP and 53/UDP): what the merge makes of
		// such a list is unspecified, but it must not panic and must not touch its inputs
		if dupListMapItem(c, o) {
			c.Class("observed-with-repeated-merge-key")
		}
	}
	return c05Triple{O: o, L: l, D: d}
}

// dupListMapItem finds a list of objects somewhere in v and repeats one item with another payload.
func dupListMapItem(c *vs.Case, v any) bool {
	switch t := v.(type) {
	case map[string]any:
		keys := make([]string, 0, len(t))
		for k := range t {
			keys = append(keys, k)
		}
		sort.Strings(keys)
		for _, k := range keys {
			if l, ok := t[k].([]any); ok && len(l) > 0 {
				if it, ok := l[c.Int(len(l))].(map[string]any); ok && len(it) > 0 {
					twin := vs.CopyMap(it)
					twin["protocol"] = "UDP"
					pos := c.Int(len(l) + 1)
					nl := append([]any{}, l[:pos]...)
					nl = append(nl, twin)
					nl = append(nl, l[pos:]...)
					t[k] = nl
					return true
				}
			}
			if dupListMapItem(c, t[k]) {
				return true
			}
		}
	case []any:
		for _, x := range t {
			if dupListMapItem(c, x) {
				return true
			}
		}
	}
	return false
}

func TestVerifC05MergeRandom(t *testing.T) {
	vs.Run(t, "C05", func(c *vs.Case) error {
		tr := genRandomTriple(c)
		c.Describe(tr.describe)
		return checkMergeTriple(c, tr)
	})
}

// ---- ApplyUpdate ---------------------------------------------------------------

var sysFields = []string{"selfLink", "uid", "resourceVersion", "generation", "creationTimestamp", "deletionTimestamp", "deletionGracePeriodSeconds"}

func checkApplyUpdate(c *vs.Case, tr c05Triple) error {
	// observed object: triple's observed content + system metadata + status
	orig := vs.CopyMap(tr.O)
	orig["apiVersion"] = "ex.io/v1"
	orig["kind"] = "Widget"
	meta := map[string]any{"name": "w", "namespace": "ns1", "uid": "uid-obs", "resourceVersion": "42", "generation": int64(3), "creationTimestamp": "2020-01-01T00:00:00Z"}
	if c.Prob(1, 4) {
		meta["deletionTimestamp"] = "2020-01-02T00:00:00Z"
		meta["deletionGracePeriodSeconds"] = int64(0)
	}
	if c.Prob(1, 6) {
		// explicit nulls where a system field would be (what a Go client that marshals a zero time leaves behind)
		for _, f := range []string{"selfLink", "deletionTimestamp", "deletionGracePeriodSeconds"} {
			if _, set := meta[f]; !set && c.Bool() {
				meta[f] = nil
			}
		}
		c.Class("observed-system-field-null")
	}
	if c.Prob(1, 3) {
		meta["labels"] = map[string]any{"app": "x", "foreign": "y"}
	}
	ann := map[string]any{}
	if c.Prob(1, 3) {
		ann["foreign-annotation"] = "keep"
	}
	lastMode := c.Weighted(6, 1, 1)
	var last map[string]any
	switch lastMode {
	case 0:
		if tr.L != nil {
			last = vs.CopyMap(tr.L)
			b, _ := json.Marshal(last)
			ann[dynamicapply.LastAppliedAnnotation] = string(b)
		}
	case 1:
		// absent
	default:
		ann[dynamicapply.LastAppliedAnnotation] = "{not json"
	}
	if len(ann) > 0 {
		meta["annotations"] = ann
	}
	orig["metadata"] = meta
	statusMode := c.Int(4)
	switch statusMode {
	case 0:
		delete(orig, "status")
	case 1:
		orig["status"] = map[string]any{"ready": true, "observedGeneration": int64(3)}
	case 3:
		orig["status"] = nil // an explicit null
	default:
		orig["status"] = "weird-scalar-status"
	}

	// desired object: triple's desired content + possibly hostile metadata/status
	upd := vs.CopyMap(tr.D)
	upd["apiVersion"] = "ex.io/v1"
	upd["kind"] = "Widget"
	dmeta := map[string]any{"name": "w", "namespace": "ns1"}
	if c.Prob(1, 3) {
		dmeta["labels"] = map[string]any{"app": "x2"}
	}
	hostile := c.Prob(1, 3)
	if hostile {
		dmeta["uid"] = "uid-evil"
		dmeta["resourceVersion"] = "1"
		dmeta["generation"] = int64(99)
		dmeta["creationTimestamp"] = "1999-01-01T00:00:00Z"
		dmeta["selfLink"] = "/evil"
		if c.Bool() {
			dmeta["deletionTimestamp"] = "1999-01-01T00:00:00Z"
		}
		c.Class("desired-sets-system-metadata")
	}
	dann := map[string]any{}
	if c.Prob(1, 4) {
		dann["own-annotation"] = "v"
	}
	ownLA := c.Prob(1, 4)
	if ownLA {
		dann[dynamicapply.LastAppliedAnnotation] = `{"evil":true}`
		c.Class("desired-carries-last-applied")
	}
	if len(dann) > 0 {
		dmeta["annotations"] = dann
	}
	upd["metadata"] = dmeta
	switch c.Int(3) {
	case 0:
		delete(upd, "status")
	case 1:
		upd["status"] = map[string]any{"ready": false}
		c.Class("desired-sets-status")
	default:
		// leave whatever the triple had
	}

	origU := &unstructured.Unstructured{Object: orig}
	updU := &unstructured.Unstructured{Object: upd}
	orig0 := vs.CopyMap(orig)
	upd0 := vs.CopyMap(upd)

	// expected desired after the sanctioned stripping of metacontroller's own annotation
	updStripped := vs.CopyMap(upd0)
	if ownLA {
		a := updStripped["metadata"].(map[string]any)["annotations"].(map[string]any)
		delete(a, dynamicapply.LastAppliedAnnotation)
	}

	res, err := ApplyUpdate(origU, updU)

	if !reflect.DeepEqual(origU.Object, orig0) {
		return vs.Violf("C05/apply-mutates-observed", "ApplyUpdate mutated the observed object:\nbefore=%s\nafter=%s", js(orig0), js(origU.Object))
	}
	// the stripping may or may not leave an empty annotations map behind; both are "own annotation stripped"
	updStripped2 := vs.CopyMap(updStripped)
	if ownLA {
		if a, _ := updStripped2["metadata"].(map[string]any)["annotations"].(map[string]any); len(a) == 0 {
			delete(updStripped2["metadata"].(map[string]any), "annotations")
		}
	}
	switch {
	case reflect.DeepEqual(updU.Object, upd0), reflect.DeepEqual(updU.Object, updStripped):
	case reflect.DeepEqual(updU.Object, updStripped2):
		updStripped = updStripped2
	default:
		return vs.Violf("C05/apply-mutates-desired", "ApplyUpdate mutated desired beyond stripping its own annotation:\nbefore=%s\nafter=%s", js(upd0), js(updU.Object))
	}

	if lastMode == 2 {
		c.Class("last-applied-not-json")
		if err == nil {
			// the statement does not pin this down; nothing more to check
			return nil
		}
		return nil
	}

	ref := vs.RefMerge(vs.CopyMap(orig0), last, vs.CopyMap(updStripped))
	if ref.Unspecified {
		return nil
	}
	if err != nil {
		if ref.Clash || ref.LastClash {
			return nil
		}
		return vs.Violf("C05/apply-unexpected-error", "ApplyUpdate error %v without a type clash", err)
	}
	if ref.Clash {
		return c.Known(vs.Violf("C05/clash-not-reported", "ApplyUpdate: desired/observed type clash at desired%s silently ignored", ref.ClashPath))
	}
	if ref.Foreign && (ref.ListMap || ref.Removal || hostile) {
		c.NonTrivial()
	}
	want, ok := ref.Value.(map[string]any)
	if !ok {
		return nil
	}
	// system metadata exactly as observed
	wm, _ := want["metadata"].(map[string]any)
	om := orig0["metadata"].(map[string]any)
	if wm == nil {
		return nil // desired clobbered metadata with a wild: cannot happen with these generators
	}
	for _, f := range sysFields {
		if v, ok := om[f]; ok {
			wm[f] = v
		} else {
			delete(wm, f)
		}
	}
	// status exactly as observed
	if v, ok := orig0["status"]; ok {
		want["status"] = v
	} else {
		delete(want, "status")
	}
	// last-applied record == new desired (own annotation stripped)
	got := res.Object
	gm, _ := got["metadata"].(map[string]any)
	if gm == nil {
		return vs.Violf("C05/apply-metadata-lost", "result has no metadata map: %s", js(got))
	}
	gann, _ := gm["annotations"].(map[string]any)
	la, _ := gann[dynamicapply.LastAppliedAnnotation].(string)
	var laParsed map[string]any
	if e := k8sjson.Unmarshal([]byte(la), &laParsed); e != nil {
		return vs.Violf("C05/apply-last-applied-invalid", "last-applied annotation of result is not JSON: %q", la)
	}
	if ok, why := vs.RefEqual(laParsed, normalizeJSON(updStripped)); !ok {
		return vs.Violf("C05/apply-last-applied-wrong", "last-applied record != desired at %s\nrecord=%s\ndesired=%s", why, la, js(updStripped))
	}
	// compare everything else (ignoring the record itself)
	wann, _ := wm["annotations"].(map[string]any)
	if wann == nil {
		wann = map[string]any{}
		wm["annotations"] = wann
	}
	wann[dynamicapply.LastAppliedAnnotation] = vs.Wild
	if ok, why := vs.RefEqual(got, want); !ok {
		return vs.Violf("C05/apply-differs", "ApplyUpdate result differs from reference at %s\nobserved=%s\ndesired=%s\ngot=%s\nwant=%s", why, js(orig0), js(upd0), js(got), js(want))
	}
	if ref.WildUsed {
		return nil
	}
	if vs.RefMerge(vs.CopyMap(got), vs.CopyMap(updStripped), vs.CopyMap(updStripped)).Unspecified {
		return nil
	}
	// idempotence at the object level: applying the same desired to the result is a no-op
	res2, err := ApplyUpdate(res, &unstructured.Unstructured{Object: vs.CopyMap(upd0)})
	if err != nil {
		return vs.Violf("C05/apply-idempotence-error", "ApplyUpdate(result, desired) errored: %v", err)
	}
	if !DeepEqual(res2.UnstructuredContent(), res.UnstructuredContent()) {
		return vs.Violf("C05/apply-not-idempotent", "ApplyUpdate(ApplyUpdate(o,d),d) differs => endless writes\nfirst=%s\nsecond=%s", js(res.Object), js(res2.Object))
	}
	return nil
}

// normalizeJSON round-trips through the k8s JSON codec so that number types
// match what the annotation decodes to.
func normalizeJSON(v map[string]any) map[string]any {
	b, _ := json.Marshal(v)
	var out map[string]any
	_ = k8sjson.Unmarshal(b, &out)
	return out
}

func TestVerifC05ApplyUpdateRandom(t *testing.T) {
	vs.Run(t, "C05", func(c *vs.Case) error {
		var tr c05Triple
		if c.Bool() {
			tr = genRandomTriple(c)
		} else {
			tr = genBounded(c, true)
		}
		// top-level identity/metadata/status keys are set by checkApplyUpdate itself
		for _, m := range []map[string]any{tr.O, tr.L, tr.D} {
			delete(m, "metadata")
			delete(m, "apiVersion")
			delete(m, "kind")
		}
		c.Describe(tr.describe)
		return checkApplyUpdate(c, tr)
	})
}

// Hand-written regression cases for repaired defects (generator independent).
func TestVerifC05Regressions(t *testing.T) {
	clash := func(o, l, d map[string]any) func() error {
		return func() error {
			got, err := dynamicapply.Merge(o, l, d)
			if err == nil {
				return vs.Violf("C05/clash-not-reported", "desired/observed type clash silently ignored: observed=%v lastApplied=%v desired=%v result=%v", o, l, d, got)
			}
			return nil
		}
	}
	vs.RunFixed(t, "C05", map[string]func() error{
		"scalar-over-map":  clash(map[string]any{"f": map[string]any{}}, map[string]any{"f": "s1"}, map[string]any{"f": "s1"}),
		"list-over-map":    clash(map[string]any{"f": map[string]any{"x": "s1"}}, nil, map[string]any{"f": []any{"s1"}}),
		"scalar-over-list": clash(map[string]any{"f": []any{"s1"}}, nil, map[string]any{"f": "s1"}),
		"map-over-list":    clash(map[string]any{"f": []any{"s1"}}, nil, map[string]any{"f": map[string]any{"x": "s1"}}),
		"nested-scalar-over-map": clash(map[string]any{"n": map[string]any{"f": map[string]any{"x": int64(1)}, "keep": "k"}},
			map[string]any{"n": map[string]any{"f": map[string]any{"x": int64(1)}}}, map[string]any{"n": map[string]any{"f": true}}),
	})
}

// Native fuzzing (thorough tier): the fuzzer's bytes drive the same triple generator and oracle.
func FuzzVerifC05Merge(f *testing.F) {
	seeds := [][]byte{{}, {1, 2, 3, 4, 5, 6, 7, 8, 9, 10, 11, 12, 13, 14, 15, 16}, {3, 0, 1, 2, 0, 1, 2, 3, 3, 3, 1, 1, 1, 0, 0, 0, 2, 2, 2}, {255, 254, 253, 252, 251, 250, 200, 150, 100, 50, 25, 12, 6, 3}}
	vs.RunFuzz(f, "C05", "TestVerifC05MergeRandom", seeds, func(c *vs.Case) error {
		tr := genRandomTriple(c)
		c.Describe(tr.describe)
		return checkMergeTriple(c, tr)
	})
}
