package composite

import (
	"testing"

	vs "metacontroller/pkg/internal/verifsim"
	vw "metacontroller/pkg/internal/verifworld"
)

func TestVerifC06Composite(t *testing.T) {
	vs.Run(t, "C06", func(c *vs.Case) error { return vw.PropC06(c, compositeFactory, "composite") })
}

// Hand-written regression cases for defects that were found by the generated
// checks and repaired with a "fix:" commit (see /verif/known_findings.json).
func TestVerifC13Regressions(t *testing.T) {
	vs.RunFixed(t, "C13", map[string]func() error{
		// F6b: rolling strategy + hook response without status => nil-map panic in SetCondition
		"rolling-hook-omits-status": func() error {
			scn := vw.FixedScn("widgets", "RollingInPlace", []string{"w0"}, 0)
			env, err := vw.NewEnv(scn, compositeFactory)
			if err != nil {
				return err
			}
			for i := 0; i < 2; i++ {
				tr := env.SyncFresh()
				if tr.Panic != "" {
					return vs.Violf("C13/panic", "rolling controller whose hook omits status panicked: %s", tr.Panic)
				}
			}
			return nil
		},
	})
}
