package composite

import (
	apiextensionsv1 "k8s.io/apiextensions-apiserver/pkg/apis/apiextensions/v1"
	"net/http"

	"metacontroller/pkg/apis/metacontroller/v1alpha1"
	"metacontroller/pkg/controller/common"
	"metacontroller/pkg/hooks"
	"testing"

	vs "metacontroller/pkg/internal/verifsim"
	vw "metacontroller/pkg/internal/verifworld"
)

func TestVerifC06Composite(t *testing.T) {
	vs.Run(t, "C06", func(c *vs.Case) error { return vw.PropC06(c, compositeFactory, "composite") })
}

// Hand-written regression cases for defects that were found by the generated
// checks and repaired with a "fix:" commit (see /verif/known_findings.json).
func TestVerifC13Regressions(t *testing.T) {
	vs.RunFixed(t, "C13", map[string]func() error{
		// F6b: rolling strategy + hook response without status => nil-map panic in SetCondition
		"rolling-hook-omits-status": func() error {
			scn := vw.FixedScn("widgets", "RollingInPlace", []string{"w0"}, 0)
			env, err := vw.NewEnv(scn, compositeFactory)
			if err != nil {
				return err
			}
			for i := 0; i < 2; i++ {
				tr := env.SyncFresh()
				if tr.Panic != "" {
					return vs.Violf("C13/panic", "rolling controller whose hook omits status panicked: %s", tr.Panic)
				}
			}
			return nil
		},
	})
}

func TestVerifC01Composite(t *testing.T) {
	vs.Run(t, "C01", func(c *vs.Case) error { return vw.PropC01(c, compositeFactory, "composite") })
}

func TestVerifC01Regressions(t *testing.T) {
	vs.RunFixed(t, "C01", map[string]func() error{
		// children created with dynamic apply carry the last-applied annotation; switching the
		// controller to server-side apply must strip it and converge, not fail every sync
		"ssa-takes-over-dynamic-apply-children": func() error {
			scn := vw.FixedScn("configmaps", "InPlace", []string{"c0"}, 1)
			env, err := vw.NewEnv(scn, compositeFactory)
			if err != nil {
				return err
			}
			env.SyncFresh()
			env.SyncFresh()
			scn.Cfg.SSA = true
			if err := env.Restart(); err != nil {
				return err
			}
			var last *vw.SyncTrace
			for i := 0; i < 3; i++ {
				last = env.SyncFresh()
				if last.Panic != "" {
					return vs.Violf("C01/panic", "%s", last.Panic)
				}
			}
			if last.Err != nil {
				return vs.Violf("C01/sync-error-at-fixpoint", "server-side apply over a child that carries the last-applied annotation still fails after 3 syncs: %v", last.Err)
			}
			return nil
		},
	})
}

func TestVerifC08Regressions(t *testing.T) {
	rollout := func(method string) func() error {
		return func() error {
			scn := vw.FixedScn("widgets", method, []string{"w0", "w1", "w2"}, 1)
			env, err := vw.NewEnv(scn, compositeFactory)
			if err != nil {
				return err
			}
			for i := 0; i < 3; i++ {
				env.SyncFresh()
				env.MakeHealthy()
			}
			env.W.Sim.ExtUpdate("things", "ns1", "p1", func(obj map[string]any) {
				obj["spec"].(map[string]any)["template"].(map[string]any)["v"] = "v2"
			})
			var last *vw.SyncTrace
			for i := 0; i < 3*3+6; i++ {
				env.MakeHealthy()
				last = env.SyncFresh()
				if last.Panic != "" {
					return vs.Violf("C08/panic", "%s", last.Panic)
				}
			}
			for _, name := range []string{"w0", "w1", "w2"} {
				w := env.W.Sim.Get("widgets", "ns1", name)
				if w == nil || w["spec"].(map[string]any)["v"] != "v2" {
					st, _ := env.Parent()["status"].(map[string]any)
					return vs.Violf("C08/rollout-stalled", "healthy %s rollout of 3 namespaced children did not complete within 15 syncs: %s is %v; parent status %v", method, name, w["spec"], st)
				}
			}
			if n := len(env.W.Sim.ListAll("controllerrevisions")); n != 1 {
				return vs.Violf("C08/revisions-not-pruned", "%d ControllerRevisions remain after the rollout, want 1", n)
			}
			return nil
		}
	}
	vs.RunFixed(t, "C08", map[string]func() error{
		"namespaced-rollout-inplace-completes":  rollout("RollingInPlace"),
		"namespaced-rollout-recreate-completes": rollout("RollingRecreate"),
	})
}

func TestVerifC02Composite(t *testing.T) {
	vs.Run(t, "C02", func(c *vs.Case) error { return vw.PropC02(c, compositeFactory, "composite") })
}

func TestVerifC03Composite(t *testing.T) {
	vs.Run(t, "C03", func(c *vs.Case) error { return vw.PropC03(c, compositeFactory, "composite") })
}

func TestVerifC04Composite(t *testing.T) {
	vs.Run(t, "C04", func(c *vs.Case) error { return vw.PropC04(c, compositeFactory) })
}

func TestVerifC11Regressions(t *testing.T) {
	vs.RunFixed(t, "C11", map[string]func() error{
		// a sync answer that says finalized: the finalizer removal re-reads the parent; the status must
		// still report the generation the hook was shown, not the one of the fresh read
		"finalized-answer-with-stale-parent-cache": func() error {
			scn := vw.FixedScn("configmaps", "InPlace", []string{"c0"}, 2)
			scn.Prog.SyncFinalized = true
			env, err := vw.NewEnv(scn, compositeFactory)
			if err != nil {
				return err
			}
			env.W.SyncAll()
			// the live parent moves on to generation 2, the cache still shows generation 1
			env.W.Sim.ExtUpdate(scn.Cfg.ParentResource, scn.ParentNS(), scn.ParentName(), func(o map[string]any) {
				o["spec"].(map[string]any)["other"] = "edited"
			})
			tr := env.Sync()
			if tr.Panic != "" {
				return vs.Violf("C11/panic", "%s", tr.Panic)
			}
			var sent any
			for _, h := range tr.Hooks {
				if p, ok := h.Request["parent"].(map[string]any); ok {
					sent = p["metadata"].(map[string]any)["generation"]
				}
			}
			st, _ := env.Parent()["status"].(map[string]any)
			if st != nil && !vs.JSONEqual(st["observedGeneration"], sent) {
				return vs.Violf("C11/status-wrong", "the hook was shown generation %v but the status written says observedGeneration %v", sent, st["observedGeneration"])
			}
			return nil
		},
	})
}

func TestVerifC07Regressions(t *testing.T) {
	vs.RunFixed(t, "C07", map[string]func() error{
		// F3: the hook already returns a condition of type Updated; the rollout state must still be reported
		"updated-condition-overrides-hooks-own": func() error {
			scn := vw.FixedScn("widgets", "RollingInPlace", []string{"w0", "w1"}, 3)
			env, err := vw.NewEnv(scn, compositeFactory)
			if err != nil {
				return err
			}
			for i := 0; i < 3; i++ {
				env.MakeHealthy()
				if tr := env.SyncFresh(); tr.Panic != "" {
					return vs.Violf("C07/panic", "%s", tr.Panic)
				}
			}
			st, _ := env.Parent()["status"].(map[string]any)
			conds, _ := st["conditions"].([]any)
			for _, c := range conds {
				m, _ := c.(map[string]any)
				if m["type"] == "Updated" {
					if m["status"] == "True" && m["reason"] == "OnLatestRevision" {
						return nil
					}
					return vs.Violf("C07/updated-condition-wrong", "all rolling children are on the latest revision but the parent's Updated condition is %v (the hook's own value survived)", m)
				}
			}
			return vs.Violf("C07/updated-condition-wrong", "parent status has no Updated condition: %v", st)
		},
	})
}

func TestVerifC11Composite(t *testing.T) {
	vs.Run(t, "C11", func(c *vs.Case) error { return vw.PropC11(c, compositeFactory) })
}

func TestVerifC10Composite(t *testing.T) {
	vs.Run(t, "C10", func(c *vs.Case) error { return vw.PropC10(c, compositeFactory, "composite") })
}

func TestVerifC01RegressionsSSAReplaced(t *testing.T) {
	vs.RunFixed(t, "C01", map[string]func() error{
		// server-side apply: a child deleted and re-created by someone else under the same name (same
		// generation, other UID) must get the hook's fields again
		"ssa-child-replaced-by-look-alike": func() error {
			scn := vw.FixedScn("widgets", "InPlace", []string{"w0"}, 1)
			scn.Cfg.SSA = true
			env, err := vw.NewEnv(scn, compositeFactory)
			if err != nil {
				return err
			}
			for i := 0; i < 3; i++ {
				if tr := env.SyncFresh(); tr.Panic != "" {
					return vs.Violf("C01/panic", "%s", tr.Panic)
				}
			}
			env.W.Sim.Purge("widgets", "ns1", "w0")
			if _, err := env.W.Sim.ExtCreate("widgets", map[string]any{"apiVersion": "ex.io/v1", "kind": "Widget",
				"metadata": map[string]any{"name": "w0", "namespace": "ns1", "labels": map[string]any{"app": "p1"}}, "spec": map[string]any{"v": "someone-elses"}}); err != nil {
				return err
			}
			for i := 0; i < 4; i++ {
				if tr := env.SyncFresh(); tr.Panic != "" {
					return vs.Violf("C01/panic", "%s", tr.Panic)
				}
			}
			live := env.W.Sim.Get("widgets", "ns1", "w0")
			spec, _ := live["spec"].(map[string]any)
			if spec["v"] == "someone-elses" {
				return vs.Violf("C01/field-not-converged", "server-side apply: Widget ns1/w0 was re-created by someone else with spec.v=someone-elses; after 4 syncs the hook's value is still not applied (spec=%v)", spec)
			}
			return nil
		},
	})
}

func TestVerifC01RegressionsEcho(t *testing.T) {
	vs.RunFixed(t, "C01", map[string]func() error{
		// a hook that echoes the observed annotations (hence metacontroller's own last-applied
		// record) back must not cause an endless delete/create loop under Recreate
		"recreate-hook-echoes-annotations": func() error {
			scn := vw.FixedScn("widgets", "Recreate", []string{"w0"}, 1)
			scn.Prog.Children[0].EchoAnnotations = true
			env, err := vw.NewEnv(scn, compositeFactory)
			if err != nil {
				return err
			}
			var last *vw.SyncTrace
			for i := 0; i < 8; i++ {
				last = env.SyncFresh()
				if last.Panic != "" {
					return vs.Violf("C01/panic", "%s", last.Panic)
				}
			}
			for _, r := range last.Writes() {
				if r.Def.Resource == "widgets" {
					return vs.Violf("C01/no-quiescence", "after 8 syncs the controller still writes its child every sync (hot loop): %v", last.Summary())
				}
			}
			return nil
		},
	})
}

func TestVerifC07Exhaustive(t *testing.T) {
	steps := 3
	if vs.Tier() == "thorough" {
		steps = 4
	}
	vs.RunExhaustive(t, "C07", 3_000_000, func(c *vs.Case) error {
		return vw.PropC07(c, compositeFactory, vw.RolloutOpts{MaxChildren: 2, Steps: steps, Small: true})
	})
}

// the same small rollouts with external deletion of any child at any step (thorough tier)
func TestVerifC07ExhaustiveDeletes(t *testing.T) {
	if vs.Tier() != "thorough" {
		t.Skip("thorough tier only")
	}
	vs.RunExhaustive(t, "C07", 3_000_000, func(c *vs.Case) error {
		return vw.PropC07(c, compositeFactory, vw.RolloutOpts{MaxChildren: 2, Steps: 3, Small: true, Deletes: true})
	})
}

func TestVerifC07Random(t *testing.T) {
	vs.Run(t, "C07", func(c *vs.Case) error {
		return vw.PropC07(c, compositeFactory, vw.RolloutOpts{MaxChildren: 5, Steps: 3 + c.Int(5), Deletes: true, Lag: true, Scale: true})
	})
}

func TestVerifC07CrossKind(t *testing.T) {
	vs.Run(t, "C07", func(c *vs.Case) error {
		return vw.PropC07CrossKind(c, compositeFactory)
	})
}

func TestVerifC08Random(t *testing.T) {
	vs.Run(t, "C08", func(c *vs.Case) error {
		return vw.PropC08(c, compositeFactory, vw.RolloutOpts{MaxChildren: 6, Scale: true, TwoKinds: true})
	})
}

func TestVerifC08RegressionsScale(t *testing.T) {
	vs.RunFixed(t, "C08", map[string]func() error{
		// a child that was scaled away must not stay recorded in the latest revision: the next
		// rollout would wait forever on "missing child" (or panic while it is still observed)
		"rollout-with-scale-up-and-down-completes": func() error {
			scn := vw.FixedScn("widgets", "RollingInPlace", nil, 1)
			scn.Cfg.FieldPaths = []string{"spec.template"}
			scn.Prog.Children[0].Replicated = true
			scn.Parent["spec"].(map[string]any)["replicas"] = int64(3)
			env, err := vw.NewEnv(scn, compositeFactory)
			if err != nil {
				return err
			}
			step := func() error {
				env.MakeHealthy()
				if tr := env.SyncFresh(); tr.Panic != "" {
					return vs.Violf("C08/panic", "%s", tr.Panic)
				}
				return nil
			}
			setReplicas := func(n int64) {
				env.W.Sim.ExtUpdate("things", "ns1", "p1", func(o map[string]any) { o["spec"].(map[string]any)["replicas"] = n })
			}
			setReplicas(2)
			for i := 0; i < 3; i++ {
				if err := step(); err != nil {
					return err
				}
			}
			// a rollout starts ...
			env.W.Sim.ExtUpdate("things", "ns1", "p1", func(o map[string]any) {
				o["spec"].(map[string]any)["template"].(map[string]any)["v"] = "v2"
			})
			if err := step(); err != nil {
				return err
			}
			// ... the parent is scaled up (the new child is born on the latest revision) and down again
			setReplicas(3)
			if err := step(); err != nil {
				return err
			}
			setReplicas(2)
			for i := 0; i < 3*2+6; i++ {
				if err := step(); err != nil {
					return err
				}
			}
			for _, n := range []string{"p1-w-0", "p1-w-1"} {
				w := env.W.Sim.Get("widgets", "ns1", n)
				if w == nil || w["spec"].(map[string]any)["v"] != "v2" {
					st, _ := env.Parent()["status"].(map[string]any)
					return vs.Violf("C08/rollout-stalled", "rollout with a scale-up and scale-down in between did not complete within 12 fair syncs: %s is %v; parent status %v", n, w["spec"], st)
				}
			}
			return nil
		},
	})
}

func TestVerifC09Exhaustive(t *testing.T) {
	vs.RunExhaustive(t, "C09", 3_000_000, func(c *vs.Case) error {
		// quick: one parent change per scenario; thorough: also a second change 0-2 syncs later
		return vw.PropC09(c, compositeFactory, vw.RolloutOpts{MaxChildren: 2, Small: true, SingleEdit: vs.Tier() != "thorough"})
	})
}

func TestVerifC09Random(t *testing.T) {
	vs.Run(t, "C09", func(c *vs.Case) error {
		return vw.PropC09(c, compositeFactory, vw.RolloutOpts{MaxChildren: 4, Scale: true})
	})
}

// A restarted process whose ControllerRevision LIST is slow (real Reconcile/Start, real informers).
func TestVerifC09RestartRevisionCache(t *testing.T) {
	vs.Run(t, "C09", func(c *vs.Case) error { return vw.PropC09RestartBeforeRevisionCache(c, c09GateDriver{}) })
}

// The same restart with the child LIST held back: the hook must never be shown an incomplete set of children.
func TestVerifC03RestartChildCache(t *testing.T) {
	vs.Run(t, "C03", func(c *vs.Case) error { return vw.PropC03RestartBeforeChildCache(c, c09GateDriver{}) })
}

func TestVerifC12FixedExhaustive(t *testing.T) {
	vs.RunExhaustive(t, "C12", 2_000_000, func(c *vs.Case) error { return vw.PropC12(c, compositeFactory, "composite", true) })
}

func TestVerifC12Random(t *testing.T) {
	vs.Run(t, "C12", func(c *vs.Case) error { return vw.PropC12(c, compositeFactory, "composite", false) })
}

func TestVerifC13Composite(t *testing.T) {
	vs.Run(t, "C13", func(c *vs.Case) error { return vw.PropC13(c, compositeFactory, "composite") })
}

func TestVerifC13RegressionsNull(t *testing.T) {
	answer := func(body string, customize bool) func() error {
		return func() error {
			scn := vw.FixedScn("widgets", "InPlace", []string{"w0"}, 1)
			scn.Cfg.CustomizeHook = customize
			env, err := vw.NewEnv(scn, compositeFactory)
			if err != nil {
				return err
			}
			env.SyncFresh()
			url := vw.SyncURL
			if customize {
				url = vw.CustomizeURL
				env.W.Sim.ExtUpdate("things", "ns1", "p1", func(o map[string]any) { o["spec"].(map[string]any)["other"] = "bump" })
			}
			env.W.Hooks.Handle(url, func(_ *http.Request, _ []byte) vw.HookResponse {
				return vw.HookResponse{Code: 200, Body: []byte(body)}
			})
			if tr := env.SyncFresh(); tr.Panic != "" {
				return vs.Violf("C13/panic", "hook answered %s and the sync panicked: %s", body, tr.Panic)
			}
			return nil
		}
	}
	vs.RunFixed(t, "C13", map[string]func() error{
		"null-entry-in-children":       answer(`{"children":[null]}`, false),
		"null-entry-after-valid-child": answer(`{"children":[{"apiVersion":"ex.io/v1","kind":"Widget","metadata":{"name":"w0","labels":{"app":"p1"}}},null]}`, false),
		"null-related-resource-rule":   answer(`{"relatedResources":[null]}`, true),
	})
}

func TestVerifC14Composite(t *testing.T) {
	vs.Run(t, "C14", func(c *vs.Case) error { return vw.PropC14(c, compositeFactory, "composite") })
}

func TestVerifC15Composite(t *testing.T) {
	vs.Run(t, "C15", func(c *vs.Case) error { return vw.PropC15(c, compositeFactory, "composite") })
}

func TestVerifC14LiveComposite(t *testing.T) {
	vs.Run(t, "C14", func(c *vs.Case) error {
		env := vw.NewC20Env()
		return vw.PropC14Live(c, "composite", env, newC20CompositeDriver(env))
	})
}

func TestVerifC15LiveComposite(t *testing.T) {
	vs.Run(t, "C15", func(c *vs.Case) error {
		env := vw.NewC20Env()
		return vw.PropC15Live(c, "composite", env, newC20CompositeDriver(env))
	})
}

func TestVerifC20Composite(t *testing.T) {
	vs.Run(t, "C20", func(c *vs.Case) error {
		env := vw.NewC20Env()
		return vw.PropC20(c, "composite", env, newC20CompositeDriver(env))
	})
}

// The gate "parent CRD without status subresource cannot start" on multi-version CRDs: what counts is the version the
// controller names, not the storage version or any other served one (the status endpoint exists per version).
func TestVerifC20StatusGate(t *testing.T) {
	vs.Run(t, "C20", func(c *vs.Case) error {
		n := 1 + c.Int(3)
		names := []string{"v1", "v1beta1", "v2"}[:n]
		storage := c.Int(n)
		crd := &apiextensionsv1.CustomResourceDefinition{}
		has := map[string]bool{}
		for i, v := range names {
			ver := apiextensionsv1.CustomResourceDefinitionVersion{Name: v, Served: true, Storage: i == storage}
			switch c.Int(3) {
			case 0:
				ver.Subresources = &apiextensionsv1.CustomResourceSubresources{Status: &apiextensionsv1.CustomResourceSubresourceStatus{}}
				has[v] = true
			case 1:
				ver.Subresources = &apiextensionsv1.CustomResourceSubresources{} // e.g. only scale would be set
			}
			crd.Spec.Versions = append(crd.Spec.Versions, ver)
		}
		asked := []string{"v1", "v1beta1", "v2", "v3"}[c.Int(4)]
		c.Describe(func() any {
			return map[string]any{"versions": names, "storage": names[storage], "withStatus": has, "controllerNames": asked}
		})
		if has[asked] != has[names[storage]] {
			c.NonTrivial()
		}
		if got := common.HasStatusSubresource(crd, asked); got != has[asked] {
			return vs.Violf("C20/status-gate-wrong-version", "parent CRD versions %v (storage %s, status subresource on %v): a controller naming version %s is told hasStatus=%v", names, names[storage], has, asked, got)
		}
		return nil
	})
}

func TestVerifC20Regressions(t *testing.T) {
	vs.RunFixed(t, "C20", map[string]func() error{
		// F9: ETag enabled with cacheTimeoutSeconds but without cacheCleanupSeconds must not crash the process
		"etag-config-without-cleanup-interval": func() error {
			enabled, ten := true, int32(10)
			url := "http://hook.invalid/x/sync"
			var perr any
			func() {
				defer func() { perr = recover() }()
				_, _ = hooks.NewWebhookExecutor(&v1alpha1.Webhook{URL: &url, Etag: &v1alpha1.WebhookEtagConfig{Enabled: &enabled, CacheTimeoutSeconds: &ten}}, "x", common.CompositeController, common.SyncHook)
			}()
			if perr != nil {
				return vs.Violf("C20/reconcile-panicked", "webhook with etag.enabled and cacheTimeoutSeconds but no cacheCleanupSeconds: NewWebhookExecutor panicked: %v", perr)
			}
			return nil
		},
	})
}

// C17 part 1: every sync-level generator doubles as a carrier for the cache-fingerprint oracle.
func TestVerifC17Fingerprint(t *testing.T) {
	vs.Run(t, "C17", func(c *vs.Case) error {
		var err error
		switch c.Int(10) {
		case 8:
			c.Class("carrier:C08")
			err = vw.PropC08(c, compositeFactory, vw.RolloutOpts{MaxChildren: 5, Scale: true, TwoKinds: true})
		case 9:
			c.Class("carrier:C09")
			err = vw.PropC09(c, compositeFactory, vw.RolloutOpts{MaxChildren: 3, Scale: true})
		case 0:
			c.Class("carrier:C01")
			err = vw.PropC01(c, compositeFactory, "composite")
		case 1:
			c.Class("carrier:C02")
			err = vw.PropC02(c, compositeFactory, "composite")
		case 2:
			c.Class("carrier:C04")
			err = vw.PropC04(c, compositeFactory)
		case 3:
			c.Class("carrier:C07")
			err = vw.PropC07(c, compositeFactory, vw.RolloutOpts{MaxChildren: 4, Steps: 3 + c.Int(4), Deletes: true, Lag: true, Scale: true})
		case 4:
			c.Class("carrier:C10")
			err = vw.PropC10(c, compositeFactory, "composite")
		case 5:
			c.Class("carrier:C12")
			err = vw.PropC12(c, compositeFactory, "composite", false)
		case 6:
			c.Class("carrier:C13")
			err = vw.PropC13(c, compositeFactory, "composite")
		default:
			c.Class("carrier:C11")
			err = vw.PropC11(c, compositeFactory)
		}
		return vw.OnlyC17(err)
	})
}

// C17 part 2 (race build): concurrent workers on distinct parents sharing informers.
func TestVerifC17Race(t *testing.T) {
	vs.Run(t, "C17", func(c *vs.Case) error { return vw.PropC17Race(c, compositeFactory, "composite") })
}

// Deterministic probes of the open known findings (see /verif/known_findings.json).
func TestVerifKnownProbesC01(t *testing.T) { vs.RunFixed(t, "C01", vw.ProbesC01(compositeFactory)) }
func TestVerifKnownProbesC02(t *testing.T) { vs.RunFixed(t, "C02", vw.ProbesC02(compositeFactory)) }
func TestVerifKnownProbesC08(t *testing.T) { vs.RunFixed(t, "C08", vw.ProbesC08(compositeFactory)) }

// Native fuzzing (thorough tier) of hook responses: bytes -> choices -> the C13 grammar and oracle.
func FuzzVerifC13Response(f *testing.F) {
	seeds := [][]byte{{}, {0, 1, 2, 3, 4, 5, 6, 7, 8, 9, 10, 11, 12, 13, 14, 15, 16, 17, 18, 19, 20, 21, 22, 23, 24, 25, 26, 27, 28, 29, 30},
		{9, 8, 7, 6, 5, 4, 3, 2, 1, 0, 9, 8, 7, 6, 5, 4, 3, 2, 1, 0, 9, 8, 7, 6, 5, 4, 3, 2, 1, 0, 2, 2, 2, 2}}
	vs.RunFuzz(f, "C13", "TestVerifC13Composite", seeds, func(c *vs.Case) error { return vw.PropC13(c, compositeFactory, "composite") })
}
