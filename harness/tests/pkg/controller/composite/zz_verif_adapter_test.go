package composite

import (
	"context"
	"encoding/json"
	"fmt"
	mclisters "metacontroller/pkg/client/generated/lister/metacontroller/v1alpha1"
	"os"
	"testing"
	"time"

	"metacontroller/pkg/controller/common"
	"metacontroller/pkg/controller/common/customize"
	"metacontroller/pkg/controller/common/finalizer"
	dynamicinformer "metacontroller/pkg/dynamic/informer"
	"metacontroller/pkg/hooks"
	vw "metacontroller/pkg/internal/verifworld"
	"metacontroller/pkg/logging"

	"github.com/go-logr/logr"
	metav1 "k8s.io/apimachinery/pkg/apis/meta/v1"
	"k8s.io/apimachinery/pkg/labels"
	"k8s.io/apimachinery/pkg/runtime/schema"
	"k8s.io/apimachinery/pkg/types"
	"k8s.io/client-go/tools/cache"
	"k8s.io/klog/v2"
	"sigs.k8s.io/controller-runtime/pkg/reconcile"
)

func TestMain(m *testing.M) {
	logging.Logger = logr.Discard()
	klog.SetLogger(logr.Discard())
	klog.LogToStderr(false)
	os.Exit(m.Run())
}

// compositeAdapter drives a real parentController built over a verif world.
type compositeAdapter struct {
	pc  *parentController
	w   *vw.World
	cfg *vw.CtlConfig
}

func newCompositeAdapter(w *vw.World, cfg *vw.CtlConfig) (*compositeAdapter, error) {
	cc := cfg.CompositeObject(w.Sim)
	parentClient, err := w.DynClient.Resource(cc.Spec.ParentResource.APIVersion, cc.Spec.ParentResource.Resource)
	if err != nil {
		return nil, err
	}
	parentResource := parentClient.APIResource
	updateStrategy, err := makeUpdateStrategyMap(w.Resources, cc)
	if err != nil {
		return nil, err
	}
	parentInformer := w.Informers[cfg.ParentResource]
	childInformers := make(common.InformerMap)
	for _, child := range cc.Spec.ChildResources {
		gv, err := schema.ParseGroupVersion(child.APIVersion)
		if err != nil {
			return nil, err
		}
		childInformers.Set(gv.WithResource(child.Resource), w.Informers[child.Resource])
	}
	parentGV := schema.GroupVersion{Group: parentResource.Group, Version: parentResource.Version}
	parentResources := make(common.GroupKindMap)
	parentResources.Set(schema.GroupKind{Group: parentGV.Group, Kind: parentResource.Kind}, parentResource)
	parentInformers := make(common.InformerMap)
	parentInformers.Set(parentGV.WithResource(parentResource.Name), parentInformer)

	mkHook := func(enabled bool, url string, ht common.HookType) hooks.Hook {
		if !enabled {
			return hooks.NewVerifDisabledHook()
		}
		return hooks.NewVerifHook(w.Hooks, url, ht, cfg.Mode(), cfg.Etag, time.Hour, nil)
	}
	parentSelector := labels.Everything()
	if cc.Spec.ParentResource.LabelSelector != nil {
		parentSelector, err = metav1.LabelSelectorAsSelector(cc.Spec.ParentResource.LabelSelector)
		if err != nil {
			return nil, err
		}
	}
	ssa := &common.ApplyOptions{Strategy: common.ApplyStrategyDynamicApply, FieldManager: "metacontroller"}
	if cfg.SSA {
		ssa.Strategy = common.ApplyStrategyServerSideApply
	}
	pc := &parentController{
		cc:             cc,
		mcClient:       w.McClient,
		dynClient:      w.DynClient,
		childInformers: childInformers,
		parentClient:   parentClient,
		parentInformer: parentInformer,
		parentSelector: parentSelector,
		parentResource: parentResource,
		revisionLister: w.RevLister,
		updateStrategy: updateStrategy,
		queue:          w.Queue,
		numWorkers:     1,
		ssaOptions:     ssa,
		eventRecorder:  vw.NopRecorder{},
		finalizer:      finalizer.NewManager("metacontroller.io/compositecontroller-"+cc.Name, cc.Spec.Hooks.Finalize != nil),
		syncHook:       mkHook(cfg.SyncHook, vw.SyncURL, common.SyncHook),
		finalizeHook:   mkHook(cfg.FinalizeHook, vw.FinalizeURL, common.FinalizeHook),
		logger:         logr.Discard(),
		stopCh:         make(chan struct{}),
	}
	pc.customize, err = customize.NewCustomizeManager(cc.Name, pc.enqueueParentObject, cc, w.DynClient,
		relatedFactory(w, cfg), parentInformers, parentResources, pc.logger, common.CompositeController)
	if err != nil {
		return nil, err
	}
	// (through an interface assertion: the harness must still build when the manager's start-up API changes)
	if st, ok := any(pc.customize).(interface{ Start(chan struct{}) }); ok {
		st.Start(pc.stopCh)
	}
	if cfg.CustomizeHook {
		pc.customize.VerifSetHook(hooks.NewVerifHook(w.Hooks, vw.CustomizeURL, common.CustomizeHook, cfg.Mode(), false, 0, nil))
		for _, d := range w.Sim.Defs() {
			if d.Resource == "controllerrevisions" || cfg.RealRelatedInformers {
				continue
			}
			pc.customize.VerifSetRelatedInformer(d.GVR(), w.Informers[d.Resource])
		}
	}
	return &compositeAdapter{pc: pc, w: w, cfg: cfg}, nil
}

func (a *compositeAdapter) Sync(key string) error { return a.pc.sync(key) }

func (a *compositeAdapter) Process(key string) {
	a.w.Queue.Push(key)
	a.pc.processNextWorkItem()
}

func (a *compositeAdapter) KeyFor(parent map[string]any) string {
	m, _ := parent["metadata"].(map[string]any)
	ns, _ := m["namespace"].(string)
	name, _ := m["name"].(string)
	if ns == "" {
		return name
	}
	return ns + "/" + name
}

func compositeFactory(w *vw.World, cfg *vw.CtlConfig) (vw.Controller, error) {
	if cfg.Kind != "composite" {
		return nil, fmt.Errorf("compositeFactory: kind %q", cfg.Kind)
	}
	return newCompositeAdapter(w, cfg)
}

// ---- vw.EventSink ----

func (a *compositeAdapter) ParentAdd(obj any)         { a.pc.enqueueParentObject(obj) }
func (a *compositeAdapter) ParentUpdate(old, cur any) { a.pc.updateParentObject(old, cur) }
func (a *compositeAdapter) ParentDelete(obj any)      { a.pc.enqueueParentObject(obj) }
func (a *compositeAdapter) ChildAdd(obj any)          { a.pc.onChildAdd(obj) }
func (a *compositeAdapter) ChildUpdate(old, cur any)  { a.pc.onChildUpdate(old, cur) }
func (a *compositeAdapter) ChildDelete(obj any)       { a.pc.onChildDelete(obj) }
func (a *compositeAdapter) RelatedAdd(obj any)        { a.pc.customize.VerifOnRelatedAdd(obj) }
func (a *compositeAdapter) RelatedUpdate(old, cur any) {
	a.pc.customize.VerifOnRelatedUpdate(old, cur)
}
func (a *compositeAdapter) RelatedDelete(obj any) { a.pc.customize.VerifOnRelatedDelete(obj) }
func (a *compositeAdapter) ParseKey(key string) (string, string, error) {
	return cache.SplitMetaNamespaceKey(key)
}

// ---- C20: Metacontroller.Reconcile driver ----

type c20CompositeDriver struct{ mc *Metacontroller }

func newC20CompositeDriver(env *vw.C20Env) *c20CompositeDriver {
	return &c20CompositeDriver{mc: &Metacontroller{
		k8sClient:         env.K8s,
		resources:         env.W.Resources,
		dynClient:         env.W.DynClient,
		dynInformers:      env.Factory,
		eventRecorder:     vw.NopRecorder{},
		mcClient:          env.W.McClient,
		revisionLister:    env.W.RevLister,
		parentControllers: make(map[string]*parentController),
		numWorkers:        2,
		ssaOptions:        &common.ApplyOptions{Strategy: common.ApplyStrategyDynamicApply},
		logger:            logr.Discard(),
	}}
}

// c09GateDriver: a Metacontroller wired like NewMetacontroller does it, with the given revision lister/informer.
type c09GateDriver struct{}

func (c09GateDriver) StartInstance(env *vw.C20Env, lister mclisters.ControllerRevisionLister, informer cache.SharedIndexInformer, name string) (func(), error) {
	d := newC20CompositeDriver(env)
	d.mc.revisionLister = lister
	d.mc.revisionInformer = informer
	if err := d.Reconcile(name); err != nil {
		return nil, err
	}
	return func() {
		for _, pc := range d.mc.parentControllers {
			pc.Stop()
		}
	}, nil
}

func (d *c20CompositeDriver) Reconcile(name string) error {
	_, err := d.mc.Reconcile(context.Background(), reconcile.Request{NamespacedName: types.NamespacedName{Name: name}})
	return err
}

func (d *c20CompositeDriver) Running() map[string][2]string {
	out := map[string][2]string{}
	for n, pc := range d.mc.parentControllers {
		b, _ := json.Marshal(pc.cc.Spec)
		out[n] = [2]string{fmt.Sprintf("%p", pc), string(b)}
	}
	return out
}

func relatedFactory(w *vw.World, cfg *vw.CtlConfig) *dynamicinformer.SharedInformerFactory {
	if cfg.RealRelatedInformers {
		f := dynamicinformer.NewSharedInformerFactory(w.DynClient, 10*time.Minute)
		w.RelatedRefs = f.VerifRefCounts
		return f
	}
	return &dynamicinformer.SharedInformerFactory{}
}
