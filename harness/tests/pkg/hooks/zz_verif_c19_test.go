package hooks

import (
	"bytes"
	"errors"
	"fmt"
	"io"
	"math"
	"net/http"
	"net/http/httptest"
	"os"
	"strings"
	"sync"
	"sync/atomic"
	"testing"
	"time"

	"metacontroller/pkg/apis/metacontroller/v1alpha1"
	"metacontroller/pkg/cache"
	"metacontroller/pkg/controller/common"
	vs "metacontroller/pkg/internal/verifsim"
	"metacontroller/pkg/logging"

	"github.com/go-logr/logr"
	metav1 "k8s.io/apimachinery/pkg/apis/meta/v1"
	"k8s.io/apimachinery/pkg/apis/meta/v1/unstructured"
)

func TestMain(m *testing.M) {
	logging.Logger = logr.Discard()
	os.Exit(m.Run())
}

type c19Req struct {
	Parent *unstructured.Unstructured `json:"parent"`
}

func (r *c19Req) GetRootObject() *unstructured.Unstructured { return r.Parent }

type c19Resp struct {
	Status             map[string]interface{} `json:"status"`
	Children           []interface{}          `json:"children"`
	ResyncAfterSeconds float64                `json:"resyncAfterSeconds"`
	Finalized          bool                   `json:"finalized"`
}

func c19Parent() *c19Req {
	return &c19Req{Parent: &unstructured.Unstructured{Object: map[string]interface{}{"apiVersion": "ex.io/v1", "kind": "Thing",
		"metadata": map[string]interface{}{"name": "p1", "namespace": "ns1"}}}}
}

type scriptedClient struct {
	do func(req *http.Request) (*http.Response, error)
}

func (s *scriptedClient) Do(req *http.Request) (*http.Response, error) { return s.do(req) }

func etagHdr(v string) http.Header {
	h := http.Header{}
	h.Set(headerETag, v)
	return h
}

func httpResp(code int, hdr http.Header, body string) *http.Response {
	if hdr == nil {
		hdr = http.Header{}
	}
	return &http.Response{StatusCode: code, Header: hdr, Body: io.NopCloser(bytes.NewReader([]byte(body)))}
}

var c19Now = time.Date(2024, 5, 1, 12, 0, 0, 0, time.UTC)

func newC19Executor(client HttpClientInterface, etag bool, ttl time.Duration, strict bool) *webhookExecutor {
	var abstract webhookAbstract = &webhookExecutorPlain{}
	if etag {
		abstract = &webhookExecutorEtag{etagCache: cache.New[eTagKey, *eTagEntry](ttl, 0)}
	}
	var mode *v1alpha1.ResponseUnmarshallMode
	if strict {
		m := v1alpha1.ResponseUnmarshallModeStrict
		mode = &m
	}
	return newWebhookExecutor(client, "http://hook.invalid/sync", common.SyncHook, mode, abstract, func() time.Time { return c19Now })
}

// ---- part 1: single calls, exhaustive product ---------------------------------------

var c19Codes = []int{200, 201, 204, 301, 304, 400, 404, 412, 429, 500, 503}

type c19Body struct {
	name, text string
	validJSON  bool
	unknown    bool // unknown or duplicate fields
	v          int  // status.v marker, -1 if none
}

var c19Bodies = []c19Body{
	{"valid", `{"status":{"v":7},"children":[],"resyncAfterSeconds":2,"finalized":true}`, true, false, 7},
	{"valid-minimal", `{}`, true, false, -1},
	{"unknown-field", `{"status":{"v":7},"bogus":1}`, true, true, 7},
	{"duplicate-field", `{"status":{"v":1},"status":{"v":7}}`, true, true, 7},
	{"case-variant-field", `{"Status":{"v":7}}`, true, true, -2},
	{"invalid-json", `{"status":`, false, false, -1},
	{"empty", ``, false, false, -1},
	{"wrong-type", `{"status":[1,2]}`, false, false, -1},
}

func TestVerifC19SingleCallExhaustive(t *testing.T) {
	vs.RunExhaustive(t, "C19", 1_000_000, func(c *vs.Case) error {
		code := c19Codes[c.Int(len(c19Codes))]
		body := c19Bodies[c.Int(len(c19Bodies))]
		strict := c.Bool()
		etagState := c.PickStr("disabled", "empty", "hit", "expired")
		respEtag := c.PickStr("", `"e2"`)
		retryAfter := c.PickStr("", "17", "Wed, 01 May 2024 12:00:30 GMT", "soon", "-5")
		transportErr := c.Int(5) == 0
		// what the cache was warmed with: a well-formed answer, or one with unknown / duplicate fields
		warmBody := c19Body{"cached", `{"status":{"v":3},"children":[]}`, true, false, 3}
		if etagState == "hit" || etagState == "expired" {
			switch c.Int(3) {
			case 1:
				warmBody = c19Body{"cached-unknown-field", `{"status":{"v":3},"bogus":1}`, true, true, 3}
			case 2:
				warmBody = c19Body{"cached-duplicate-field", `{"status":{"v":1},"status":{"v":3}}`, true, true, 3}
			}
		}
		c.Describe(func() any {
			return map[string]any{"code": code, "body": body.name, "strict": strict, "etag": etagState, "cachedBody": warmBody.name, "responseETag": respEtag, "retryAfter": retryAfter, "transportError": transportErr}
		})
		ttl := time.Hour
		if etagState == "expired" {
			ttl = time.Millisecond
		}
		calls := 0
		var sentINM []string
		client := &scriptedClient{}
		cachedBody := warmBody.text
		client.do = func(req *http.Request) (*http.Response, error) {
			calls++
			sentINM = append(sentINM, req.Header.Get(headerIfNoneMatch))
			if calls == 1 && (etagState == "hit" || etagState == "expired") {
				return httpResp(200, etagHdr(`"e1"`), cachedBody), nil
			}
			if transportErr {
				return nil, errors.New("dial tcp: i/o timeout")
			}
			h := http.Header{}
			if respEtag != "" {
				h.Set(headerETag, respEtag)
			}
			if retryAfter != "" {
				h.Set("Retry-After", retryAfter)
			}
			return httpResp(code, h, body.text), nil
		}
		ex := newC19Executor(client, etagState != "disabled", ttl, strict)
		if etagState == "hit" || etagState == "expired" {
			var warmResp c19Resp
			if err := ex.Call(c19Parent(), &warmResp); err != nil {
				if strict && warmBody.unknown {
					// rejected as it must be; the body and its ETag are cached all the same
					c.Class("cache-warmed-with-rejected-body")
				} else if strict {
					// strict mode may (wrongly) reject the warm-up; judged by the main oracle on other cases
					return c.Known(vs.Violf("C19/strict-rejects-wellformed", "strict mode rejected a well-formed response while warming the ETag cache: %v", err))
				} else {
					return fmt.Errorf("harness: warm-up call failed: %v", err)
				}
			}
			if etagState == "expired" {
				time.Sleep(3 * time.Millisecond)
			}
		}
		var got c19Resp
		err := ex.Call(c19Parent(), &got)
		inm := sentINM[len(sentINM)-1]
		// the reference transport
		if etagState == "hit" && inm != `"e1"` {
			return vs.Violf("C19/if-none-match-not-sent", "a cached ETag exists but the request carried If-None-Match=%q", inm)
		}
		if (etagState == "disabled" || etagState == "empty" || etagState == "expired") && inm != "" {
			return vs.Violf("C19/if-none-match-unexpected", "no valid cache entry (%s) but the request carried If-None-Match=%q", etagState, inm)
		}
		if code == 304 || code == 412 || inm != "" {
			c.NonTrivial()
		}
		switch {
		case transportErr:
			if err == nil {
				return vs.Violf("C19/transport-error-swallowed", "the HTTP client failed but the call succeeded")
			}
			return nil
		case code == 429:
			var tm *TooManyRequestError
			if !errors.As(err, &tm) {
				return vs.Violf("C19/429-not-reported", "HTTP 429 must yield a TooManyRequestError, got %v", err)
			}
			want := 0
			switch retryAfter {
			case "17":
				want = 17
			case "Wed, 01 May 2024 12:00:30 GMT":
				want = int(math.Ceil(30))
			case "-5":
				want = -5
			}
			if tm.AfterSecond != want {
				return vs.Violf("C19/retry-after-wrong", "Retry-After %q: got delay %d s, want %d s", retryAfter, tm.AfterSecond, want)
			}
			return nil
		}
		usable := code == 200 || ((code == 304 || code == 412) && inm != "")
		if !usable {
			if err == nil {
				return vs.Violf("C19/bad-status-accepted", "HTTP %d (If-None-Match sent: %q, etag support %s) was treated as an answer", code, inm, etagState)
			}
			return nil
		}
		// which body must be decoded
		eff := body
		if code != 200 {
			eff = warmBody
		}
		wantErr := !eff.validJSON || (strict && eff.unknown)
		if wantErr {
			if err == nil {
				return vs.Violf("C19/undecodable-body-accepted", "body %q (strict=%v) must be rejected but the call succeeded with %+v", eff.name, strict, got)
			}
			return nil
		}
		if err != nil {
			v := vs.Violf("C19/valid-answer-rejected", "HTTP %d with body %q (strict=%v, etag %s) is a valid answer but the call failed: %v", code, eff.name, strict, etagState, err)
			if strict && !eff.unknown {
				v.Sig = "C19/strict-rejects-wellformed"
			}
			return c.Known(v)
		}
		if eff.v >= 0 {
			gv, _ := got.Status["v"]
			if fmt.Sprint(gv) != fmt.Sprint(eff.v) {
				return vs.Violf("C19/wrong-body-decoded", "decoded status.v=%v, want %d (body %q, code %d)", gv, eff.v, eff.name, code)
			}
		}
		return nil
	})
}

// ---- part 2: interleavings of concurrent calls with the same cache key -------------------

type c19Call struct {
	idx      int
	entered  chan string   // If-None-Match seen when the call enters Do (after header enrichment)
	doRound  chan struct{} // permission: compute the server's answer now
	rounded  chan struct{} // answer computed
	doReturn chan struct{} // permission: return from Do (response adjustment follows)
	done     chan error    // Call returned
	resp     c19Resp
	inm      string
	answer   string // "200:<version>" or "304:<etag version>"
	extra    []int  // answers given to requests the call repeated on its own
}

// runSchedule executes n concurrent calls under one interleaving given as a
// sequence of events (call index, phase) with phase E(nter) R(ound trip) A(djust).
func runC19Schedule(c *vs.Case, n int) error {
	type ev struct {
		call  int
		phase byte
	}
	// choose an interleaving respecting per-call order E < R < A
	next := make([]int, n) // 0=E 1=R 2=A 3=done
	var order []ev
	for len(order) < 3*n {
		var cand []int
		for i := 0; i < n; i++ {
			if next[i] < 3 {
				cand = append(cand, i)
			}
		}
		i := cand[c.Int(len(cand))]
		order = append(order, ev{i, "ERA"[next[i]]})
		next[i]++
	}
	// the server: content version may change right before a round trip
	bump := make([]bool, n)
	for i := range bump {
		bump[i] = c.Bool()
	}
	warm := c.Bool() // cache already holds version 1 before the calls start
	strict := false
	var sched []string
	for _, e := range order {
		sched = append(sched, fmt.Sprintf("%c%d", e.phase, e.call))
	}
	c.Describe(func() any {
		return map[string]any{"calls": n, "schedule": strings.Join(sched, " "), "serverBumpsBeforeRoundTrip": bump, "cacheWarm": warm}
	})
	version := 1
	calls := make([]*c19Call, n)
	byReq := make(chan *http.Request) // unused, keeps the shape explicit
	_ = byReq
	idxCh := make(chan int, n)
	var adjusting atomic.Pointer[c19Call]
	client := &scriptedClient{}
	client.do = func(req *http.Request) (*http.Response, error) {
		if req.Header.Get("X-Warm") != "" {
			return httpResp(200, etagHdr(`"v1"`), `{"status":{"v":1}}`), nil
		}
		var i int
		select {
		case i = <-idxCh:
		default:
			// a request nobody scheduled: the call that is being adjusted right now asks again (an
			// implementation may repeat a request). The server answers it on its own: with the current
			// content, or with an error page whose body happens to decode.
			cl := adjusting.Load()
			if cl == nil {
				return nil, fmt.Errorf("harness: unscheduled request outside an adjustment step")
			}
			k := c.Int(4)
			cl.extra = append(cl.extra, k)
			c.Class("call-repeated-its-request")
			etag := fmt.Sprintf(`"v%d"`, version)
			switch k {
			case 0:
				cl.answer = fmt.Sprintf("200:%d", version)
				return httpResp(200, etagHdr(etag), fmt.Sprintf(`{"status":{"v":%d}}`, version)), nil
			case 1:
				cl.answer = "500:0"
				return httpResp(500, etagHdr(`"err"`), `{}`), nil
			case 2:
				cl.answer = "503:0"
				return httpResp(503, http.Header{}, `{"status":{"v":99}}`), nil
			default:
				cl.answer = "404:0"
				return httpResp(404, http.Header{}, `{"error":"no such hook"}`), nil
			}
		}
		cl := calls[i]
		cl.inm = req.Header.Get(headerIfNoneMatch)
		cl.entered <- cl.inm
		<-cl.doRound
		if bump[i] {
			version++
		}
		etag := fmt.Sprintf(`"v%d"`, version)
		var resp *http.Response
		if cl.inm == etag {
			cl.answer = fmt.Sprintf("304:%d", version)
			resp = httpResp(304, http.Header{}, "")
		} else {
			cl.answer = fmt.Sprintf("200:%d", version)
			resp = httpResp(200, etagHdr(etag), fmt.Sprintf(`{"status":{"v":%d}}`, version))
		}
		cl.rounded <- struct{}{}
		<-cl.doReturn
		return resp, nil
	}
	ex := newC19Executor(client, true, time.Hour, strict)
	if warm {
		// populate the cache with version 1 through a plain call
		wreq := c19Parent()
		warmClient := &scriptedClient{do: func(req *http.Request) (*http.Response, error) {
			return httpResp(200, etagHdr(`"v1"`), `{"status":{"v":1}}`), nil
		}}
		saved := ex.client
		ex.client = warmClient
		var r c19Resp
		if err := ex.Call(wreq, &r); err != nil {
			return fmt.Errorf("harness: warm-up failed: %v", err)
		}
		ex.client = saved
	}
	for i := 0; i < n; i++ {
		calls[i] = &c19Call{idx: i, entered: make(chan string, 1), doRound: make(chan struct{}), rounded: make(chan struct{}, 1), doReturn: make(chan struct{}), done: make(chan error, 1)}
	}
	timeout := time.After(20 * time.Second)
	wait := func(ch <-chan struct{}) error {
		select {
		case <-ch:
			return nil
		case <-timeout:
			return fmt.Errorf("harness: schedule step timed out")
		}
	}
	for _, e := range order {
		cl := calls[e.call]
		switch e.phase {
		case 'E':
			idxCh <- e.call
			go func(cl *c19Call) { cl.done <- ex.Call(c19Parent(), &cl.resp) }(cl)
			select {
			case <-cl.entered:
			case <-timeout:
				return fmt.Errorf("harness: call %d never reached the HTTP client", e.call)
			}
		case 'R':
			cl.doRound <- struct{}{}
			if err := wait(cl.rounded); err != nil {
				return err
			}
		case 'A':
			adjusting.Store(cl)
			cl.doReturn <- struct{}{}
			select {
			case err := <-cl.done:
				adjusting.Store(nil)
				// judge this call
				kind, ver := 0, 0
				fmt.Sscanf(cl.answer, "%d:%d", &kind, &ver)
				if kind != 200 && kind != 304 {
					// the last thing the hook said to this call was an error page
					if err == nil {
						return vs.Violf("C19/bad-status-accepted", "call %d repeated its request and got HTTP %d, yet it returned %+v as the hook's answer (schedule %s)", e.call, kind, cl.resp, strings.Join(sched, " "))
					}
					continue
				}
				if err != nil {
					// an error is acceptable when the body cannot be known; a 200 must succeed
					if kind == 200 {
						return vs.Violf("C19/valid-answer-rejected", "call %d got HTTP 200 with a valid body but failed: %v", e.call, err)
					}
					c.Class("304-answered-with-error")
					continue
				}
				gv := fmt.Sprint(cl.resp.Status["v"])
				if gv != fmt.Sprint(ver) {
					v := vs.Violf("C19/304-answered-with-another-body", "call %d sent If-None-Match=%q and the server answered %d for version %d, but the call returned the body of version %s (schedule %s)", e.call, cl.inm, kind, ver, gv, strings.Join(sched, " "))
					return c.Known(v)
				}
				if kind == 304 {
					c.Class("304-path")
				}
			case <-timeout:
				return fmt.Errorf("harness: call %d never returned", e.call)
			}
		}
	}
	c.NonTrivial()
	return nil
}

func TestVerifC19Schedules2(t *testing.T) {
	vs.RunExhaustive(t, "C19", 2_000_000, func(c *vs.Case) error { return runC19Schedule(c, 2) })
}

func TestVerifC19Schedules3(t *testing.T) {
	if vs.Tier() == "thorough" {
		vs.RunExhaustive(t, "C19", 5_000_000, func(c *vs.Case) error { return runC19Schedule(c, 3) })
		return
	}
	vs.Run(t, "C19", func(c *vs.Case) error { return runC19Schedule(c, 3) })
}

// Hand-written regression cases for repaired defects (generator independent).
func TestVerifC19Regressions(t *testing.T) {
	vs.RunFixed(t, "C19", map[string]func() error{
		"strict-mode-accepts-wellformed-response": func() error {
			client := &scriptedClient{do: func(req *http.Request) (*http.Response, error) {
				return httpResp(200, nil, `{"status":{"v":7},"children":[],"resyncAfterSeconds":2,"finalized":true}`), nil
			}}
			var got c19Resp
			if err := newC19Executor(client, false, 0, true).Call(c19Parent(), &got); err != nil {
				return vs.Violf("C19/strict-rejects-wellformed", "strict mode rejected a well-formed response: %v", err)
			}
			return nil
		},
		"304-must-not-return-a-body-cached-for-another-etag": func() error {
			e := &webhookExecutorEtag{etagCache: cache.New[eTagKey, *eTagEntry](time.Hour, 0)}
			p := c19Parent()
			key := e.getKeyFromObject(p.GetRootObject())
			e.etagCache.Set(key, &eTagEntry{Etag: `"v1"`, Response: []byte(`{"status":{"v":1}}`)})
			req, _ := http.NewRequest("POST", "http://hook.invalid/sync", nil)
			e.enrichHeaders(req, p)
			// a concurrent call about the same parent got a 200 with a new ETag in the meantime
			e.etagCache.Set(key, &eTagEntry{Etag: `"v2"`, Response: []byte(`{"status":{"v":2}}`)})
			body, err := e.adjustResponse(req, p, nil, httpResp(304, nil, ""))
			if err == nil && string(body) != `{"status":{"v":1}}` {
				return vs.Violf("C19/304-answered-with-another-body", "request sent If-None-Match=%q, got 304, but was handed %s (cached with another ETag)", req.Header.Get(headerIfNoneMatch), body)
			}
			return nil
		},
	})
}

// The cache entry is alive when the headers are enriched (If-None-Match is
// sent) and has expired when the response comes back.
func TestVerifC19ExpireInFlight(t *testing.T) {
	vs.RunExhaustive(t, "C19", 10_000, func(c *vs.Case) error {
		code := []int{200, 304, 412, 500}[c.Int(4)]
		strict := c.Bool()
		respEtag := c.PickStr("", `"e1"`, `"e2"`)
		c.Describe(func() any {
			return map[string]any{"code": code, "strict": strict, "responseETag": respEtag, "etag": "expires-in-flight"}
		})
		calls := 0
		inm := ""
		client := &scriptedClient{}
		client.do = func(req *http.Request) (*http.Response, error) {
			calls++
			if calls == 1 {
				return httpResp(200, etagHdr(`"e1"`), `{"status":{"v":3}}`), nil
			}
			inm = req.Header.Get(headerIfNoneMatch)
			time.Sleep(60 * time.Millisecond) // the 40 ms entry expires while the request is in flight
			h := http.Header{}
			if respEtag != "" {
				h.Set(headerETag, respEtag)
			}
			body := `{"status":{"v":9}}`
			if code != 200 {
				body = ""
			}
			return httpResp(code, h, body), nil
		}
		ex := newC19Executor(client, true, 40*time.Millisecond, strict)
		var warm c19Resp
		if err := ex.Call(c19Parent(), &warm); err != nil {
			return fmt.Errorf("harness: warm-up failed: %v", err)
		}
		var got c19Resp
		var err error
		func() {
			defer func() {
				if p := recover(); p != nil {
					err = vs.Violf("C19/panic", "hook call panicked when the ETag cache entry expired in flight (HTTP %d): %v", code, p)
				}
			}()
			err = ex.Call(c19Parent(), &got)
		}()
		if v, ok := err.(*vs.Violation); ok {
			return v
		}
		if inm != `"e1"` {
			return nil // timing did not produce the situation (entry already gone at enrichment)
		}
		c.NonTrivial()
		switch {
		case code == 200:
			if err != nil {
				return vs.Violf("C19/valid-answer-rejected", "HTTP 200 with a valid body failed: %v", err)
			}
			if fmt.Sprint(got.Status["v"]) != "9" {
				return vs.Violf("C19/wrong-body-decoded", "HTTP 200 body v=9 but decoded %v", got.Status)
			}
		case code == 500:
			if err == nil {
				return vs.Violf("C19/bad-status-accepted", "HTTP 500 accepted")
			}
		default:
			// 304/412 and the body is gone: an error is the only sound outcome, unless the old body is still returned
			if err == nil && fmt.Sprint(got.Status["v"]) != "3" {
				return vs.Violf("C19/304-answered-with-another-body", "304 after the cache entry expired returned %v", got.Status)
			}
		}
		return nil
	})
}

// ---- part 3: the configured timeout bounds the whole call (real HTTP over loopback) --------

var c19TimeoutSeq int

func TestVerifC19Timeouts(t *testing.T) {
	vs.RunExhaustive(t, "C19", 10_000, func(c *vs.Case) error {
		stall := c.PickStr("none", "before-headers", "after-headers", "mid-body")
		etag := c.Bool()
		strict := c.Bool()
		// recreated: an executor for the same controller, hook type and URL existed before, with a 10 s timeout
		recreated := c.Bool()
		c.Describe(func() any {
			return map[string]any{"stall": stall, "etag": etag, "strict": strict, "timeout": "200ms", "predecessorWith10sTimeout": recreated}
		})
		release := make(chan struct{})
		var reqMu sync.Mutex
		reqN := 0
		srv := httptest.NewServer(http.HandlerFunc(func(w http.ResponseWriter, r *http.Request) {
			body := `{"status":{"v":7},"children":[]}`
			reqMu.Lock()
			reqN++
			first := reqN == 1
			reqMu.Unlock()
			if recreated && first {
				_, _ = w.Write([]byte(body)) // the predecessor's call is answered at once
				return
			}
			wait := func() {
				select {
				case <-release:
				case <-r.Context().Done():
				}
			}
			fl, _ := w.(http.Flusher)
			switch stall {
			case "before-headers":
				wait()
			case "after-headers":
				w.Header().Set("Content-Length", fmt.Sprint(len(body)))
				w.WriteHeader(200)
				if fl != nil {
					fl.Flush()
				}
				wait()
			case "mid-body":
				w.Header().Set("Content-Length", fmt.Sprint(len(body)))
				w.WriteHeader(200)
				_, _ = w.Write([]byte(body[:10]))
				if fl != nil {
					fl.Flush()
				}
				wait()
			}
			_, _ = w.Write([]byte(body))
		}))
		defer srv.Close()
		defer close(release)
		c19TimeoutSeq++
		url := srv.URL + "/sync"
		wh := &v1alpha1.Webhook{URL: &url, Timeout: &metav1.Duration{Duration: 200 * time.Millisecond}}
		if etag {
			on := true
			ttl := int32(60)
			wh.Etag = &v1alpha1.WebhookEtagConfig{Enabled: &on, CacheTimeoutSeconds: &ttl, CacheCleanupSeconds: &ttl}
		}
		if strict {
			m := v1alpha1.ResponseUnmarshallModeStrict
			wh.ResponseUnmarshallMode = &m
		}
		ctlName := fmt.Sprintf("c19-timeouts-%d-%d", os.Getpid(), c19TimeoutSeq)
		if recreated {
			old := *wh
			old.Timeout = &metav1.Duration{Duration: 10 * time.Second}
			pre, err := NewWebhookExecutor(&old, ctlName, common.CompositeController, common.SyncHook)
			if err != nil {
				return fmt.Errorf("harness: %v", err)
			}
			var r0 c19Resp
			if err := pre.Call(c19Parent(), &r0); err != nil {
				return fmt.Errorf("harness: predecessor call failed: %v", err)
			}
		}
		ex, err := NewWebhookExecutor(wh, ctlName, common.CompositeController, common.SyncHook)
		if err != nil {
			return fmt.Errorf("harness: %v", err)
		}
		done := make(chan error, 1)
		var got c19Resp
		start := time.Now()
		go func() { done <- ex.Call(c19Parent(), &got) }()
		select {
		case err := <-done:
			if stall == "none" {
				if err != nil {
					return vs.Violf("C19/valid-answer-rejected", "a prompt, well-formed 200 failed: %v", err)
				}
				return nil
			}
			c.NonTrivial()
			if err == nil {
				return vs.Violf("C19/timeout-not-enforced", "the hook stalled (%s) beyond the 200ms timeout but the call succeeded after %v", stall, time.Since(start))
			}
			return nil
		case <-time.After(5 * time.Second):
			return vs.Violf("C19/timeout-not-enforced", "the hook stalled (%s); the webhook timeout is 200ms but the call is still pending after 5s", stall)
		}
	})
}

// A hook that never answers, under the timeouts a spec can leave to the default: unset, 0s and a negative value
// (the CRD validates the format only). Every one of them is bounded by the documented 10 s default: the call ends
// in an error instead of holding a worker - or a per-revision goroutine - for good.
func TestVerifC19DefaultTimeout(t *testing.T) {
	vs.RunFixed(t, "C19", map[string]func() error{
		"never-answering-hook-under-unset-zero-and-negative-timeout": func() error {
			release := make(chan struct{})
			srv := httptest.NewServer(http.HandlerFunc(func(w http.ResponseWriter, r *http.Request) {
				select {
				case <-release:
				case <-r.Context().Done():
				}
			}))
			defer srv.Close()
			defer close(release)
			url := srv.URL + "/sync"
			type outcome struct {
				name string
				err  error
				took time.Duration
				done bool
			}
			cfgs := map[string]*metav1.Duration{"unset": nil, "0s": {Duration: 0}, "-5s": {Duration: -5 * time.Second}}
			results := make(chan outcome, len(cfgs))
			for name, d := range cfgs {
				name, d := name, d
				c19TimeoutSeq++
				wh := &v1alpha1.Webhook{URL: &url, Timeout: d}
				ex, err := NewWebhookExecutor(wh, fmt.Sprintf("c19-deftimeout-%d-%d", os.Getpid(), c19TimeoutSeq), common.CompositeController, common.SyncHook)
				if err != nil {
					return fmt.Errorf("harness: %v", err)
				}
				go func() {
					start := time.Now()
					var got c19Resp
					err := ex.Call(c19Parent(), &got)
					results <- outcome{name: name, err: err, took: time.Since(start), done: true}
				}()
			}
			deadline := time.After(16 * time.Second)
			seen := 0
			for seen < len(cfgs) {
				select {
				case o := <-results:
					seen++
					if o.err == nil {
						return vs.Violf("C19/timeout-not-enforced", "timeout %s: the hook never answered, yet the call succeeded after %v", o.name, o.took)
					}
				case <-deadline:
					return vs.Violf("C19/timeout-not-enforced", "the hook never answers; with the webhook timeout left to the 10 s default (unset, 0s, -5s) %d of %d calls are still pending after 16 s", len(cfgs)-seen, len(cfgs))
				}
			}
			return nil
		},
	})
}

// ---- part 4: ETag support follows the webhook's configuration (real constructor, loopback server) ----

func TestVerifC19EtagConfig(t *testing.T) {
	vs.RunExhaustive(t, "C19", 10_000, func(c *vs.Case) error {
		cfg := c.PickStr("no-etag-block", "empty-block", "enabled-true", "enabled-false", "timeouts-only", "enabled-true-with-timeouts",
			"entry-expires-before-second-call", "entry-outlives-the-cleanup-interval")
		second := c.PickStr("304", "412", "200")
		c.Describe(func() any { return map[string]any{"etagConfig": cfg, "secondAnswer": second} })
		var inm []string
		var mu sync.Mutex
		n := 0
		srv := httptest.NewServer(http.HandlerFunc(func(w http.ResponseWriter, r *http.Request) {
			mu.Lock()
			n++
			k := n
			inm = append(inm, r.Header.Get(headerIfNoneMatch))
			mu.Unlock()
			if k == 1 {
				w.Header().Set(headerETag, `"e1"`)
				_, _ = w.Write([]byte(`{"status":{"v":3},"children":[]}`))
				return
			}
			switch second {
			case "304":
				w.WriteHeader(304)
			case "412":
				w.WriteHeader(412)
			default:
				_, _ = w.Write([]byte(`{"status":{"v":7},"children":[]}`))
			}
		}))
		defer srv.Close()
		c19TimeoutSeq++
		url := srv.URL + "/sync"
		wh := &v1alpha1.Webhook{URL: &url}
		on, off := true, false
		ttl, one := int32(60), int32(1)
		active := false
		wait := time.Duration(0)
		switch cfg {
		case "empty-block":
			wh.Etag = &v1alpha1.WebhookEtagConfig{}
		case "enabled-true":
			wh.Etag = &v1alpha1.WebhookEtagConfig{Enabled: &on, CacheTimeoutSeconds: &ttl, CacheCleanupSeconds: &ttl}
			active = true
		case "enabled-false":
			wh.Etag = &v1alpha1.WebhookEtagConfig{Enabled: &off, CacheTimeoutSeconds: &ttl, CacheCleanupSeconds: &ttl}
		case "timeouts-only":
			wh.Etag = &v1alpha1.WebhookEtagConfig{CacheTimeoutSeconds: &ttl, CacheCleanupSeconds: &ttl}
		case "enabled-true-with-timeouts":
			wh.Etag = &v1alpha1.WebhookEtagConfig{Enabled: &on, CacheTimeoutSeconds: &ttl, CacheCleanupSeconds: &ttl}
			active = true
		case "entry-expires-before-second-call":
			// the "expired" cache state: an entry lives for cacheTimeoutSeconds, whatever the cleanup interval is
			wh.Etag = &v1alpha1.WebhookEtagConfig{Enabled: &on, CacheTimeoutSeconds: &one, CacheCleanupSeconds: &ttl}
			wait = 1300 * time.Millisecond
		case "entry-outlives-the-cleanup-interval":
			wh.Etag = &v1alpha1.WebhookEtagConfig{Enabled: &on, CacheTimeoutSeconds: &ttl, CacheCleanupSeconds: &one}
			wait = 1300 * time.Millisecond
			active = true
		}
		ex, err := NewWebhookExecutor(wh, fmt.Sprintf("c19-etagcfg-%d-%d", os.Getpid(), c19TimeoutSeq), common.CompositeController, common.SyncHook)
		if err != nil {
			return fmt.Errorf("harness: %v", err)
		}
		var r1, r2 c19Resp
		if err := ex.Call(c19Parent(), &r1); err != nil {
			return vs.Violf("C19/valid-answer-rejected", "first call (200 with an ETag) failed: %v", err)
		}
		time.Sleep(wait)
		err2 := ex.Call(c19Parent(), &r2)
		mu.Lock()
		sent := append([]string(nil), inm...)
		mu.Unlock()
		c.NonTrivial()
		if len(sent) < 2 {
			return fmt.Errorf("harness: the server saw %d requests", len(sent))
		}
		if active && sent[1] != `"e1"` {
			return vs.Violf("C19/if-none-match-not-sent", "etag.enabled is true and an entry is cached, but the second request carried If-None-Match=%q", sent[1])
		}
		if cfg == "entry-expires-before-second-call" {
			if sent[1] != "" {
				return vs.Violf("C19/expired-entry-used", "cacheTimeoutSeconds is 1 and the second call came 1.3 s after the first, yet it carried If-None-Match=%q (the expired entry is still in use)", sent[1])
			}
			if second == "200" && (err2 != nil || fmt.Sprint(r2.Status["v"]) != "7") {
				return vs.Violf("C19/valid-answer-rejected", "second call answered 200 with v=7: err=%v status=%v", err2, r2.Status)
			}
			if second != "200" && err2 == nil {
				return vs.Violf("C19/bad-status-accepted", "no If-None-Match was sent (entry expired) but HTTP %s was treated as an answer (status %v)", second, r2.Status)
			}
			return nil
		}
		if !active && sent[1] != "" {
			return vs.Violf("C19/if-none-match-unexpected", "ETag support is off (%s) but the second request carried If-None-Match=%q", cfg, sent[1])
		}
		switch {
		case second == "200":
			if err2 != nil || fmt.Sprint(r2.Status["v"]) != "7" {
				return vs.Violf("C19/valid-answer-rejected", "second call answered 200 with v=7: err=%v status=%v", err2, r2.Status)
			}
		case active:
			if err2 != nil || fmt.Sprint(r2.Status["v"]) != "3" {
				return vs.Violf("C19/wrong-body-decoded", "ETag support on, %s after If-None-Match: want the cached body (v=3), got err=%v status=%v", second, err2, r2.Status)
			}
		default:
			if err2 == nil {
				return vs.Violf("C19/bad-status-accepted", "ETag support is off (%s) but HTTP %s was treated as an answer (status %v)", cfg, second, r2.Status)
			}
		}
		return nil
	})
}

// ---- part 5: what may enter the ETag cache, and under which key ----------------------------

type errAfterReader struct {
	data []byte
	off  int
}

func (r *errAfterReader) Read(p []byte) (int, error) {
	if r.off >= len(r.data) {
		return 0, errors.New("read tcp: connection reset by peer")
	}
	n := copy(p, r.data[r.off:])
	r.off += n
	return n, nil
}
func (r *errAfterReader) Close() error { return nil }

// TestVerifC19CacheEntries: the first call leaves (or must not leave) a cache entry; the second call shows
// whether an entry is used. Entries belong to one parent (kind, namespace, name) and only come from answers
// that were usable: a 200 whose body arrived completely.
// Sequences of calls about one parent against a server whose content changes with a new ETag, changes while it
// keeps the ETag (weak validators: a 200 that repeats the ETag just sent, with another body), or does not change
// (304/412 when the validator matches). What a 304/412 stands for is the body most recently delivered together with
// that ETag; every call must return the server's current content.
func TestVerifC19EtagReuse(t *testing.T) {
	vs.RunExhaustive(t, "C19", 200_000, func(c *vs.Case) error {
		n := 3 + c.Int(2)
		steps := make([]int, n) // 0 unchanged, 1 new content same ETag, 2 new content new ETag
		for i := range steps {
			if i > 0 {
				steps[i] = c.Int(3)
			}
		}
		notModified := []int{304, 412}[c.Int(2)]
		c.Describe(func() any { return map[string]any{"steps": steps, "notModifiedCode": notModified} })
		etagN, v := 1, 1
		var log []string
		client := &scriptedClient{}
		cur := 0
		client.do = func(req *http.Request) (*http.Response, error) {
			switch steps[cur] {
			case 1:
				v++
			case 2:
				v++
				etagN++
			}
			etag := fmt.Sprintf(`"e%d"`, etagN)
			inm := req.Header.Get(headerIfNoneMatch)
			if steps[cur] == 0 && inm == etag {
				log = append(log, fmt.Sprintf("%d(INM %s)", notModified, inm))
				return httpResp(notModified, nil, ""), nil
			}
			log = append(log, fmt.Sprintf("200(%s,v=%d; INM %s)", etag, v, inm))
			return httpResp(200, etagHdr(etag), fmt.Sprintf(`{"status":{"v":%d},"children":[]}`, v)), nil
		}
		ex := newC19Executor(client, true, time.Hour, false)
		for cur = 0; cur < n; cur++ {
			var r c19Resp
			if err := ex.Call(c19Parent(), &r); err != nil {
				return vs.Violf("C19/valid-answer-rejected", "call %d of %v failed: %v", cur+1, log, err)
			}
			if fmt.Sprint(r.Status["v"]) != fmt.Sprint(v) {
				return vs.Violf("C19/304-answered-with-another-body", "exchanges %v: call %d returned the body of content version %v, the server's content (and what its last answer stands for) is version %d", log, cur+1, r.Status["v"], v)
			}
			if steps[cur] == 1 {
				c.NonTrivial()
			}
		}
		return nil
	})
}

func TestVerifC19CacheEntries(t *testing.T) {
	vs.RunExhaustive(t, "C19", 100_000, func(c *vs.Case) error {
		first := c.PickStr("200-ok", "200-body-cut-off", "500-with-etag", "404-with-etag", "200-undecodable")
		other := c.PickStr("same-parent", "other-kind", "other-namespace", "other-name")
		secondCode := []int{304, 412, 200}[c.Int(3)]
		strict := c.Bool()
		c.Describe(func() any {
			return map[string]any{"firstAnswer": first, "secondCallAbout": other, "secondCode": secondCode, "strict": strict, "etag": "enabled"}
		})
		good := `{"status":{"v":3},"children":[]}`
		calls := 0
		var inm []string
		client := &scriptedClient{}
		client.do = func(req *http.Request) (*http.Response, error) {
			calls++
			inm = append(inm, req.Header.Get(headerIfNoneMatch))
			if calls == 1 {
				switch first {
				case "200-ok":
					return httpResp(200, etagHdr(`"e1"`), good), nil
				case "200-body-cut-off":
					r := httpResp(200, etagHdr(`"e1"`), "")
					r.Body = &errAfterReader{data: []byte(good[:12])}
					return r, nil
				case "500-with-etag":
					return httpResp(500, etagHdr(`"e1"`), `{"error":"boom"}`), nil
				case "404-with-etag":
					return httpResp(404, etagHdr(`"e1"`), `{"kind":"Status","code":404}`), nil
				default:
					return httpResp(200, etagHdr(`"e1"`), `{"status":`), nil
				}
			}
			if secondCode == 200 {
				return httpResp(200, etagHdr(`"e2"`), `{"status":{"v":7},"children":[]}`), nil
			}
			return httpResp(secondCode, nil, ""), nil
		}
		ex := newC19Executor(client, true, time.Hour, strict)
		p1 := c19Parent()
		var r1 c19Resp
		err1 := ex.Call(p1, &r1)
		if (first == "200-ok") != (err1 == nil) {
			return vs.Violf("C19/first-call-misjudged", "first answer %s: err=%v", first, err1)
		}
		p2 := c19Parent()
		switch other {
		case "other-kind":
			p2.Parent.SetKind("CThing")
		case "other-namespace":
			p2.Parent.SetNamespace("ns2")
		case "other-name":
			p2.Parent.SetName("p2")
		}
		var r2 c19Resp
		err2 := ex.Call(p2, &r2)
		c.NonTrivial()
		entryExpected := first == "200-ok" && other == "same-parent"
		sent := inm[len(inm)-1]
		// an undecodable 200 is cached before it is decoded (its body does belong to that ETag); replaying it fails again
		entryAllowed := entryExpected || (first == "200-undecodable" && other == "same-parent")
		if entryExpected && sent != `"e1"` {
			return vs.Violf("C19/if-none-match-not-sent", "a usable answer with ETag e1 was cached for this parent, but the next request carried If-None-Match=%q", sent)
		}
		if !entryAllowed && sent != "" {
			return vs.Violf("C19/if-none-match-unexpected", "first answer %s, second call about %s: nothing usable is cached for that parent, yet the request carried If-None-Match=%q", first, other, sent)
		}
		switch {
		case secondCode == 200:
			if err2 != nil || fmt.Sprint(r2.Status["v"]) != "7" {
				return vs.Violf("C19/valid-answer-rejected", "second call answered 200 (v=7): err=%v status=%v", err2, r2.Status)
			}
		case entryExpected:
			if err2 != nil || fmt.Sprint(r2.Status["v"]) != "3" {
				return vs.Violf("C19/wrong-body-decoded", "HTTP %d after If-None-Match e1: want the cached body (v=3), got err=%v status=%v", secondCode, err2, r2.Status)
			}
		default:
			if err2 == nil {
				return vs.Violf("C19/bad-status-accepted", "first answer %s, second call about %s answered HTTP %d: there is no cached answer it could stand for, yet the call succeeded with %v", first, other, secondCode, r2.Status)
			}
		}
		return nil
	})
}
