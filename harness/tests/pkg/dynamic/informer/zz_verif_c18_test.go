package informer

import (
	"fmt"
	"os"
	"sort"
	"strings"
	"sync"
	"sync/atomic"
	"testing"
	"time"

	dynamicclientset "metacontroller/pkg/dynamic/clientset"
	dynamicdiscovery "metacontroller/pkg/dynamic/discovery"
	vs "metacontroller/pkg/internal/verifsim"
	"metacontroller/pkg/logging"

	"github.com/go-logr/logr"
	"k8s.io/apimachinery/pkg/apis/meta/v1/unstructured"
	"k8s.io/client-go/discovery"
	"k8s.io/client-go/rest"
	"k8s.io/client-go/tools/cache"
	"k8s.io/klog/v2"
)

func TestMain(m *testing.M) {
	logging.Logger = logr.Discard()
	klog.SetLogger(logr.Discard())
	os.Exit(m.Run())
}

// subscription targets: "widgets@v2" is the widgets resource read through its second served version
var c18Resources = []string{"widgets", "gadgets", "widgets@v2"}

func c18Universe() []*vs.ResourceDef {
	return []*vs.ResourceDef{
		{Group: "ex.io", Version: "v1", Resource: "widgets", Kind: "Widget", Namespaced: true, HasStatus: true},
		{Group: "other.io", Version: "v1beta1", Resource: "gadgets", Kind: "Gadget", Namespaced: true},
		{Group: "ex.io", Version: "v2", Resource: "widgets", Kind: "Widget", Namespaced: true, HasStatus: true},
	}
}

// c18Name is the resource name of a subscription target, c18APIVersion the version it is read through.
func c18Name(key string) string { return strings.TrimSuffix(key, "@v2") }
func c18APIVersion(key string) string {
	switch key {
	case "widgets":
		return "ex.io/v1"
	case "widgets@v2":
		return "ex.io/v2"
	}
	return "other.io/v1beta1"
}

// c18Names lists the distinct resource names behind the first n targets.
func c18Names(n int) []string {
	var out []string
	seen := map[string]bool{}
	for _, k := range c18Resources[:n] {
		if !seen[c18Name(k)] {
			seen[c18Name(k)] = true
			out = append(out, c18Name(k))
		}
	}
	return out
}

type c18Event struct {
	typ, name, rv string
}

// c18Handler records what one registered handler receives.
type c18Handler struct {
	mu          sync.Mutex
	id          string
	name        string // resource name
	apiVersion  string // the version this handler's subscription reads through
	wrongObject string // first object delivered at another version
	log         []c18Event
	removed     bool
	delay       time.Duration // a handler that takes its time over every event
	gone        int32         // set (atomically) once RemoveEventHandlers has returned for this handler
	late        int32         // callbacks that started after that
}

func (h *c18Handler) rec(typ string, obj interface{}) {
	u, ok := obj.(*unstructured.Unstructured)
	if !ok {
		if t, ok := obj.(cache.DeletedFinalStateUnknown); ok {
			u, _ = t.Obj.(*unstructured.Unstructured)
		}
	}
	if u == nil {
		return
	}
	if atomic.LoadInt32(&h.gone) == 1 {
		atomic.AddInt32(&h.late, 1)
	}
	h.mu.Lock()
	h.log = append(h.log, c18Event{typ, u.GetName(), u.GetResourceVersion()})
	if h.apiVersion != "" && u.GetAPIVersion() != h.apiVersion && h.wrongObject == "" {
		h.wrongObject = fmt.Sprintf("%s of %s %s", typ, u.GetAPIVersion(), u.GetName())
	}
	h.mu.Unlock()
	if h.delay > 0 {
		time.Sleep(h.delay)
	}
}
func (h *c18Handler) OnAdd(obj interface{}, _ bool) { h.rec("add", obj) }
func (h *c18Handler) OnUpdate(_, cur interface{})   { h.rec("update", cur) }
func (h *c18Handler) OnDelete(obj interface{})      { h.rec("delete", obj) }
func (h *c18Handler) has(name, rv string) bool {
	h.mu.Lock()
	defer h.mu.Unlock()
	for _, e := range h.log {
		if e.name == name && (rv == "" || e.rv == rv) {
			return true
		}
	}
	return false
}
func (h *c18Handler) hasType(typ, name string) bool {
	h.mu.Lock()
	defer h.mu.Unlock()
	for _, e := range h.log {
		if e.name == name && e.typ == typ {
			return true
		}
	}
	return false
}
func (h *c18Handler) wrong() string {
	h.mu.Lock()
	defer h.mu.Unlock()
	return h.wrongObject
}
func (h *c18Handler) size() int {
	h.mu.Lock()
	defer h.mu.Unlock()
	return len(h.log)
}

// c18SlowHandler blocks inside the first callback it receives until released.
type c18SlowHandler struct {
	*c18Handler
	once    sync.Once
	entered chan struct{}
	release chan struct{}
}

func (h *c18SlowHandler) block() {
	h.once.Do(func() {
		close(h.entered)
		<-h.release
	})
}
func (h *c18SlowHandler) OnAdd(obj interface{}, b bool) { h.block(); h.c18Handler.OnAdd(obj, b) }
func (h *c18SlowHandler) OnUpdate(o, cur interface{})   { h.block(); h.c18Handler.OnUpdate(o, cur) }
func (h *c18SlowHandler) OnDelete(obj interface{})      { h.block(); h.c18Handler.OnDelete(obj) }

type c18Sub struct {
	ri       *ResourceInformer
	handlers []*c18Handler
}

type c18World struct {
	rm      *dynamicdiscovery.ResourceMap
	sim     *vs.Server
	factory *SharedInformerFactory
	subs    map[string]*c18Sub // key "sub/resource", open subscriptions only
	retired []*c18Handler      // handlers that were removed (or whose subscription closed)
	probeN  int
	wedged  bool
}

func newC18World() (*c18World, error) {
	sim := vs.NewServer(c18Universe())
	cfg := &rest.Config{Host: "http://sim.invalid", Transport: sim, QPS: -1}
	dc, err := discovery.NewDiscoveryClientForConfig(cfg)
	if err != nil {
		return nil, err
	}
	rm := dynamicdiscovery.NewResourceMap(dc)
	rm.VerifRefresh()
	cs, err := dynamicclientset.New(cfg, rm)
	if err != nil {
		return nil, err
	}
	return &c18World{rm: rm, sim: sim, factory: NewSharedInformerFactory(cs, 10*time.Minute), subs: map[string]*c18Sub{}}, nil
}

func (w *c18World) def(key string) *vs.ResourceDef {
	for _, d := range w.sim.Defs() {
		if d.Resource == c18Name(key) && d.APIVersion() == c18APIVersion(key) {
			return d
		}
	}
	panic("unknown target " + key)
}

// handlersOn lists the handlers of open subscriptions to any version of a resource.
func (w *c18World) handlersOn(name string) []*c18Handler {
	var out []*c18Handler
	for k, s := range w.subs {
		if c18Name(k[strings.Index(k, "/")+1:]) == name {
			out = append(out, s.handlers...)
		}
	}
	return out
}

func (w *c18World) openCount(res string) int {
	n := 0
	for k := range w.subs {
		if strings.HasSuffix(k, "/"+res) {
			n++
		}
	}
	return n
}

func poll(d time.Duration, f func() bool) bool {
	deadline := time.Now().Add(d)
	for {
		if f() {
			return true
		}
		if time.Now().After(deadline) {
			return false
		}
		time.Sleep(500 * time.Microsecond)
	}
}

// settle checks the life-cycle and delivery invariants after an operation.
func (w *c18World) settle(c *vs.Case, after string) error {
	for _, key := range c18Resources {
		want := 0
		if w.openCount(key) > 0 {
			want = 1
		}
		gvr := c18Name(key) + "." + c18APIVersion(key)
		if !poll(5*time.Second, func() bool { return w.sim.OpenWatchesByVersion()[gvr] == want }) {
			return vs.Violf("C18/informer-lifecycle", "after %s: %d subscriptions to %s are open, so %d watch stream(s) must be running, the API server sees %d", after, w.openCount(key), gvr, want, w.sim.OpenWatchesByVersion()[gvr])
		}
	}
	// probe: an outside update must reach every active handler and no retired one
	for _, res := range c18Names(len(c18Resources)) {
		w.probeN++
		name := "probe"
		var rv string
		if w.sim.Get(res, "ns1", name) == nil {
			o, _ := w.sim.ExtCreate(res, map[string]any{"metadata": map[string]any{"name": name, "namespace": "ns1"}, "spec": map[string]any{"n": int64(w.probeN)}})
			rv, _ = o["metadata"].(map[string]any)["resourceVersion"].(string)
		} else {
			o, _ := w.sim.ExtUpdate(res, "ns1", name, func(obj map[string]any) { obj["spec"] = map[string]any{"n": int64(w.probeN)} })
			rv, _ = o["metadata"].(map[string]any)["resourceVersion"].(string)
		}
		active := w.handlersOn(res)
		for _, h := range active {
			hh := h
			if !poll(5*time.Second, func() bool { return hh.has(name, rv) }) {
				return vs.Violf("C18/event-not-delivered", "after %s: handler %s is registered on an open subscription to %s but did not receive the update of %s (rv %s)", after, hh.id, res, name, rv)
			}
		}
		// let every open informer of this resource process the event before looking at retired handlers
		for _, key := range c18Resources {
			if c18Name(key) != res || w.openCount(key) == 0 {
				continue
			}
			s := w.anySub(key)
			poll(2*time.Second, func() bool {
				o, err := s.ri.Lister().Namespace("ns1").Get(name)
				return err == nil && o.GetResourceVersion() == rv
			})
		}
		for _, h := range w.retired {
			if h.name == res && h.has(name, rv) {
				return vs.Violf("C18/event-after-removal", "after %s: handler %s was removed (or its subscription closed) but still received the update of %s (rv %s)", after, h.id, name, rv)
			}
		}
		// objects arrive in the version the subscription asked for
		for _, h := range append(active, w.retired...) {
			if bad := h.wrong(); bad != "" {
				return vs.Violf("C18/object-at-wrong-version", "after %s: handler %s subscribed through %s but was handed %s", after, h.id, h.apiVersion, bad)
			}
		}
	}
	return nil
}

func (w *c18World) anySub(res string) *c18Sub {
	var keys []string
	for k := range w.subs {
		if strings.HasSuffix(k, "/"+res) {
			keys = append(keys, k)
		}
	}
	sort.Strings(keys)
	if len(keys) == 0 {
		return nil
	}
	return w.subs[keys[0]]
}

// guarded runs one informer API call under a watchdog: none of them may block for long.
func (w *c18World) guarded(what string, f func()) error {
	done := make(chan struct{})
	go func() {
		defer close(done)
		f()
	}()
	select {
	case <-done:
		return nil
	case <-time.After(10 * time.Second):
		w.wedged = true
		return vs.Violf("C18/deadlock", "%s did not return within 10 s", what)
	}
}

func (w *c18World) teardown() {
	if w.wedged {
		return // a call is stuck inside the informer package; tearing down would block as well
	}
	done := make(chan struct{})
	go func() {
		defer close(done)
		w.teardownNow()
	}()
	select {
	case <-done:
	case <-time.After(10 * time.Second):
		w.wedged = true
	}
}

func (w *c18World) teardownNow() {
	for k, s := range w.subs {
		s.ri.Informer().RemoveEventHandlers()
		s.ri.Close()
		delete(w.subs, k)
	}
}

// propC18 interprets one operation sequence.
func propC18(c *vs.Case, nSubs, nRes, length int, heavyOps bool) error {
	w, err := newC18World()
	if err != nil {
		return fmt.Errorf("harness: %v", err)
	}
	defer w.teardown()
	var log []string
	c.Describe(func() any { return map[string]any{"subscribers": nSubs, "resources": nRes, "ops": log} })
	// a few objects exist before anyone subscribes
	for _, res := range c18Names(nRes) {
		w.sim.ExtCreate(res, map[string]any{"metadata": map[string]any{"name": "pre", "namespace": "ns1"}, "spec": map[string]any{"x": "y"}})
	}
	sawReopen, closedToZero := false, map[string]bool{}
	sawIsolation := false
	hid := 0
	// one resource may be unknown to discovery at first (its CRD gets installed later)
	hidden := map[string]bool{}
	if c.Bool() {
		res := c18Name(c18Resources[c.Int(nRes)])
		hidden[res] = true
		w.sim.SetHidden(res, true)
		w.rm.VerifRefresh()
		log = append(log, res+" is not known to discovery yet")
	}
	breaks := 0 // watch breaks so far in this case
	for step := 0; step < length; step++ {
		type op struct {
			name string
			run  func() error
		}
		var ops []op
		for s := 0; s < nSubs; s++ {
			for _, res := range c18Resources[:nRes] {
				s, res := s, res
				key := fmt.Sprintf("s%d/%s", s, res)
				sub := w.subs[key]
				d := w.def(res)
				if sub == nil && hidden[c18Name(res)] {
					ops = append(ops, op{"subscribe (resource unknown) " + key, func() error {
						if ri, err := w.factory.Resource(d.APIVersion(), c18Name(res)); err == nil {
							ri.Close()
							return fmt.Errorf("harness: subscribing to a resource unknown to discovery succeeded")
						}
						c.Class("failed-subscribe")
						return nil
					}})
					continue
				}
				if sub == nil {
					ops = append(ops, op{"subscribe " + key, func() error {
						lists := w.sim.ListCallCount(c18Name(res))
						fresh := w.openCount(res) == 0
						ri, err := w.factory.Resource(d.APIVersion(), c18Name(res))
						if err != nil {
							return fmt.Errorf("harness: %v", err)
						}
						w.subs[key] = &c18Sub{ri: ri}
						if fresh {
							if closedToZero[res] {
								sawReopen = true
							}
							if !poll(5*time.Second, func() bool { return ri.Informer().HasSynced() }) {
								return vs.Violf("C18/fresh-informer-not-working", "a subscription to %s opened while none was open never synced", res)
							}
							if w.sim.ListCallCount(c18Name(res)) <= lists {
								return vs.Violf("C18/fresh-informer-not-working", "a subscription to %s opened while none was open did not start a new LIST+WATCH", res)
							}
						}
						return nil
					}})
					continue
				}
				for _, fast := range []bool{false, true} {
					fast := fast
					n := "add-handler "
					if fast {
						n = "add-handler(resync 15ms) "
					}
					ops = append(ops, op{n + key, func() error {
						hid++
						h := &c18Handler{id: fmt.Sprintf("h%d:%s", hid, key), name: c18Name(res), apiVersion: c18APIVersion(res)}
						// what is cached right now must be replayed to the new handler
						var names []string
						for _, it := range sub.ri.Informer().GetIndexer().List() {
							names = append(names, it.(*unstructured.Unstructured).GetName())
						}
						if err := w.guarded("AddEventHandler on "+key, func() {
							if fast {
								// slow enough that its own resync is usually in progress
								h.delay = 3 * time.Millisecond
								sub.ri.Informer().AddEventHandlerWithResyncPeriod(h, 15*time.Millisecond)
							} else {
								sub.ri.Informer().AddEventHandler(h)
							}
						}); err != nil {
							return err
						}
						sub.handlers = append(sub.handlers, h)
						for _, nme := range names {
							nm := nme
							if !poll(5*time.Second, func() bool { return h.has(nm, "") }) {
								return vs.Violf("C18/no-replay-on-add", "handler %s was added while %s was cached but never received it", h.id, nm)
							}
						}
						return nil
					}})
				}
				ops = append(ops, op{"add-slow-handler+outside-create " + key, func() error {
					// the handler is still busy with its replay when a new object appears
					hid++
					h := &c18SlowHandler{c18Handler: &c18Handler{id: fmt.Sprintf("h%d:%s", hid, key), name: c18Name(res), apiVersion: c18APIVersion(res)}, entered: make(chan struct{}), release: make(chan struct{})}
					done := make(chan struct{})
					go func() {
						defer close(done)
						sub.ri.Informer().AddEventHandler(h)
					}()
					inReplay := false
					select {
					case <-h.entered:
						inReplay = true
					case <-done:
					case <-time.After(5 * time.Second):
					}
					name := fmt.Sprintf("late%d", step)
					w.sim.ExtCreate(c18Name(res), map[string]any{"metadata": map[string]any{"name": name, "namespace": "ns1"}})
					// the watch event reaches the shared informer while the replay is still in progress
					poll(2*time.Second, func() bool {
						_, err := sub.ri.Lister().Namespace("ns1").Get(name)
						return err == nil
					})
					time.Sleep(2 * time.Millisecond)
					close(h.release)
					select {
					case <-done:
					case <-time.After(10 * time.Second):
						w.wedged = true
						return vs.Violf("C18/deadlock", "AddEventHandler did not return within 10 s")
					}
					sub.handlers = append(sub.handlers, h.c18Handler)
					if inReplay {
						c.Class("object-created-during-handler-replay")
					}
					if !poll(5*time.Second, func() bool { return h.has(name, "") }) {
						return vs.Violf("C18/event-not-delivered", "handler %s was being added (replaying the cache) when %s was created; it received it neither in the replay nor as an event", h.id, name)
					}
					return nil
				}})
				if len(sub.handlers) > 0 {
					ops = append(ops, op{"remove-handlers " + key, func() error {
						if err := w.guarded("RemoveEventHandlers() on "+key, func() { sub.ri.Informer().RemoveEventHandlers() }); err != nil {
							return err
						}
						// once RemoveEventHandlers has returned, not a single further event may arrive -
						// not even from the handler's own resync timer
						before := make([]int, len(sub.handlers))
						for i, h := range sub.handlers {
							before[i] = h.size()
						}
						time.Sleep(25 * time.Millisecond)
						for i, h := range sub.handlers {
							if h.size() != before[i] {
								return vs.Violf("C18/event-after-removal", "handler %s received %d event(s) after RemoveEventHandlers returned", h.id, h.size()-before[i])
							}
						}
						for _, h := range sub.handlers {
							h.removed = true
						}
						w.retired = append(w.retired, sub.handlers...)
						sub.handlers = nil
						if w.openCount(res) > 1 {
							sawIsolation = true
						}
						return nil
					}})
				}
				ops = append(ops, op{"close " + key, func() error {
					// documented contract: remove your handlers, then close (what controllers do in Stop())
					if err := w.guarded("RemoveEventHandlers()+Close() on "+key, func() {
						sub.ri.Informer().RemoveEventHandlers()
						sub.ri.Close()
					}); err != nil {
						return err
					}
					w.retired = append(w.retired, sub.handlers...)
					delete(w.subs, key)
					if w.openCount(res) == 0 {
						closedToZero[res] = true
					} else {
						sawIsolation = true
					}
					return nil
				}})
			}
		}
		for _, res := range c18Names(nRes) {
			res := res
			if hidden[res] {
				ops = append(ops, op{"CRD of " + res + " gets installed", func() error {
					w.sim.SetHidden(res, false)
					w.rm.VerifRefresh()
					delete(hidden, res)
					return nil
				}})
			}
		}
		for _, res := range c18Resources[:nRes] {
			res := res
			k0, k1 := "s0/"+res, "s1/"+res
			if !heavyOps || w.openCount(res) != 0 || hidden[c18Name(res)] || w.subs[k0] != nil || w.subs[k1] != nil {
				continue
			}
			ops = append(ops, op{"two subscribers arrive while the first list of " + res + " is being delivered", func() error {
				d := w.def(res)
				riA, err := w.factory.Resource(d.APIVersion(), c18Name(res))
				if err != nil {
					return fmt.Errorf("harness: %v", err)
				}
				hid++
				hA := &c18SlowHandler{c18Handler: &c18Handler{id: fmt.Sprintf("h%d:%s", hid, k0), name: c18Name(res), apiVersion: c18APIVersion(res)}, entered: make(chan struct{}), release: make(chan struct{})}
				doneA := make(chan struct{})
				go func() {
					// usually nothing is cached yet and this returns at once; if the list was faster, the
					// replay itself blocks in A's handler, which serves the purpose just as well
					defer close(doneA)
					riA.Informer().AddEventHandler(hA)
				}()
				w.subs[k0] = &c18Sub{ri: riA, handlers: []*c18Handler{hA.c18Handler}}
				inList := false
				select {
				case <-hA.entered: // A's handler sits in the first notification of the initial list
					inList = true
				case <-time.After(5 * time.Second):
				}
				riB, err := w.factory.Resource(d.APIVersion(), c18Name(res))
				if err != nil {
					close(hA.release)
					return fmt.Errorf("harness: %v", err)
				}
				hid++
				hB := &c18Handler{id: fmt.Sprintf("h%d:%s", hid, k1), name: c18Name(res), apiVersion: c18APIVersion(res)}
				done := make(chan struct{})
				go func() {
					defer close(done)
					riB.Informer().AddEventHandler(hB)
				}()
				time.Sleep(5 * time.Millisecond)
				close(hA.release)
				for _, ch := range []chan struct{}{doneA, done} {
					select {
					case <-ch:
					case <-time.After(10 * time.Second):
						w.wedged = true
						return vs.Violf("C18/deadlock", "AddEventHandler did not return within 10 s")
					}
				}
				w.subs[k1] = &c18Sub{ri: riB, handlers: []*c18Handler{hB}}
				if inList {
					c.Class("handler-added-during-initial-list")
				}
				poll(5*time.Second, func() bool { return riB.Informer().HasSynced() })
				for _, it := range w.sim.ListAll(c18Name(res)) {
					nm, _ := it["metadata"].(map[string]any)["name"].(string)
					for _, h := range []*c18Handler{hA.c18Handler, hB} {
						hh := h
						if !poll(5*time.Second, func() bool { return hh.has(nm, "") }) {
							return vs.Violf("C18/no-replay-on-add", "handler %s was added while the informer was delivering its first list; it never received %s, which is in the cache", hh.id, nm)
						}
					}
				}
				return nil
			}})
		}
		for _, res := range c18Names(nRes) {
			res := res
			if !heavyOps || len(w.handlersOn(res)) == 0 || breaks >= 3 {
				// needs seconds per use because the informer backs off before listing again: random sequences only.
				// The reflector doubles that pause (with up to 100 % jitter) every time its watch ends: 0.8-1.6 s,
				// 1.6-3.2 s, 3.2-6.4 s, then 6.4-12.8 s and 12.8-25.6 s - the 15 s the check waits for the deletion
				// cover three breaks per case with room to spare, not five (false alarm of thorough sweep #3).
				continue
			}
			ops = append(ops, op{"watch of " + res + " breaks, an object is deleted meanwhile", func() error {
				name := fmt.Sprintf("gone%d", step)
				w.sim.ExtCreate(res, map[string]any{"metadata": map[string]any{"name": name, "namespace": "ns1"}})
				active := w.handlersOn(res)
				for _, h := range active {
					hh := h
					if !poll(5*time.Second, func() bool { return hh.has(name, "") }) {
						return vs.Violf("C18/event-not-delivered", "handler %s did not receive the creation of %s", hh.id, name)
					}
				}
				// connections drop, the history is compacted, and the object disappears while nobody watches:
				// the informers find out through a fresh list and must tell their handlers
				w.sim.CompactHistory(res)
				w.sim.ExpireWatches(res)
				w.sim.ExtDelete(res, "ns1", name, "")
				c.Class("deletion-found-by-relist")
				breaks++
				for _, h := range active {
					hh := h
					if !poll(15*time.Second, func() bool { return hh.hasType("delete", name) }) {
						return vs.Violf("C18/event-not-delivered", "the watch broke and %s was deleted meanwhile; handler %s was never told about the deletion", name, hh.id)
					}
				}
				return nil
			}})
		}
		for _, res := range c18Names(nRes) {
			res := res
			if !heavyOps || len(w.handlersOn(res)) == 0 || breaks >= 2 {
				continue // (two pauses of the reflector: see the budget above)
			}
			ops = append(ops, op{"watch of " + res + " breaks and the next LIST is answered 404 once", func() error {
				// the resource is momentarily gone from the API server (its CRD is being re-created): a transient
				// condition like any other failed LIST - the informer keeps retrying and its subscribers keep working
				var once int32
				w.sim.Before = func(r *vs.Request) *vs.Fault {
					if r.Verb == "list" && r.Def.Resource == c18Name(res) && atomic.CompareAndSwapInt32(&once, 0, 1) {
						return &vs.Fault{Code: 404, Reason: "NotFound", Message: "the server could not find the requested resource"}
					}
					return nil
				}
				defer func() { w.sim.Before = nil }()
				active := w.handlersOn(res)
				w.sim.CompactHistory(res)
				w.sim.ExpireWatches(res)
				breaks += 2
				if !poll(15*time.Second, func() bool { return atomic.LoadInt32(&once) == 1 }) {
					return fmt.Errorf("harness: the informer of %s did not list again after its watch broke", res)
				}
				name := fmt.Sprintf("after404-%d", step)
				w.sim.ExtCreate(c18Name(res), map[string]any{"metadata": map[string]any{"name": name, "namespace": "ns1"}})
				c.Class("list-answered-404-once")
				for _, h := range active {
					hh := h
					if !poll(15*time.Second, func() bool { return hh.has(name, "") }) {
						return vs.Violf("C18/event-not-delivered", "the watch of %s broke and the next LIST was answered 404 once; 15 s later handler %s has still not received %s, created afterwards (the informer gave up)", res, hh.id, name)
					}
				}
				return nil
			}})
		}
		for _, res := range c18Names(nRes) {
			res := res
			if hidden[res] || w.sim.Get(res, "ns1", "pre") == nil {
				continue
			}
			ops = append(ops, op{"object pre in " + res + " deleted and re-created under the same name", func() error {
				w.sim.ExtDelete(res, "ns1", "pre", "")
				o, err := w.sim.ExtCreate(res, map[string]any{"metadata": map[string]any{"name": "pre", "namespace": "ns1"}, "spec": map[string]any{"x": fmt.Sprintf("again%d", step)}})
				if err != nil {
					return fmt.Errorf("harness: %v", err)
				}
				rv, _ := o["metadata"].(map[string]any)["resourceVersion"].(string)
				for _, h := range w.handlersOn(res) {
					hh := h
					if !poll(5*time.Second, func() bool { return hh.has("pre", rv) }) {
						return vs.Violf("C18/event-not-delivered", "pre was deleted and re-created (rv %s); handler %s never received the new object", rv, hh.id)
					}
				}
				c.Class("same-name-recreated")
				return nil
			}})
		}
		for _, res := range c18Names(nRes) {
			res := res
			ops = append(ops, op{"outside create+delete in " + res, func() error {
				name := fmt.Sprintf("tmp%d", step)
				w.sim.ExtCreate(res, map[string]any{"metadata": map[string]any{"name": name, "namespace": "ns1"}})
				active := w.handlersOn(res)
				for _, h := range active {
					hh := h
					if !poll(5*time.Second, func() bool { return hh.has(name, "") }) {
						return vs.Violf("C18/event-not-delivered", "handler %s did not receive the creation of %s", hh.id, name)
					}
				}
				w.sim.ExtDelete(res, "ns1", name, "")
				for _, h := range active {
					hh := h
					if !poll(5*time.Second, func() bool { return hh.hasType("delete", name) }) {
						return vs.Violf("C18/event-not-delivered", "handler %s did not receive the deletion of %s", hh.id, name)
					}
				}
				return nil
			}})
		}
		o := ops[c.Int(len(ops))]
		log = append(log, o.name)
		if err := o.run(); err != nil {
			return err
		}
		if err := w.settle(c, o.name); err != nil {
			return err
		}
	}
	// retired handlers with their own resync timer must be silent now
	sizes := map[*c18Handler]int{}
	for _, h := range w.retired {
		sizes[h] = h.size()
	}
	if len(w.retired) > 0 {
		time.Sleep(40 * time.Millisecond)
		for _, h := range w.retired {
			if h.size() != sizes[h] {
				return vs.Violf("C18/event-after-removal", "handler %s keeps receiving events after it was removed (%d -> %d entries)", h.id, sizes[h], h.size())
			}
		}
	}
	if sawReopen || sawIsolation {
		c.NonTrivial()
	}
	if sawReopen {
		c.Class("close-to-zero-then-resubscribe")
	}
	if sawIsolation {
		c.Class("remove-or-close-while-another-subscriber-active")
	}
	return nil
}

func TestVerifC18Exhaustive(t *testing.T) {
	length := 4
	if vs.Tier() == "thorough" {
		length = 5
	}
	vs.RunExhaustive(t, "C18", 2_000_000, func(c *vs.Case) error { return propC18(c, 2, 1, length, false) })
}

func TestVerifC18Random(t *testing.T) {
	vs.Run(t, "C18", func(c *vs.Case) error { return propC18(c, 2+c.Int(2), 1+c.Int(3), 4+c.Int(14), true) })
}

// Concurrent variant (run under the race detector): every subscriber works from
// its own goroutine; the oracle is the end state plus the race detector.
func TestVerifC18Concurrent(t *testing.T) {
	vs.Run(t, "C18", func(c *vs.Case) error {
		w, err := newC18World()
		if err != nil {
			return fmt.Errorf("harness: %v", err)
		}
		nSubs := 2 + c.Int(4)
		type step struct{ op, res, pause int }
		plans := make([][]step, nSubs)
		for i := range plans {
			n := 3 + c.Int(8)
			for j := 0; j < n; j++ {
				plans[i] = append(plans[i], step{c.Int(4), c.Int(len(c18Resources)), c.Int(4)})
			}
		}
		c.Describe(func() any { return map[string]any{"subscribers": nSubs, "plans": fmt.Sprint(plans)} })
		var wg sync.WaitGroup
		var mu sync.Mutex
		var handlers []*c18Handler
		errs := make(chan error, nSubs)
		stopEvents := make(chan struct{})
		go func() {
			i := 0
			for {
				select {
				case <-stopEvents:
					return
				default:
				}
				i++
				for _, res := range c18Names(len(c18Resources)) {
					w.sim.ExtCreate(res, map[string]any{"metadata": map[string]any{"name": fmt.Sprintf("e%d", i%5), "namespace": "ns1"}})
					w.sim.ExtUpdate(res, "ns1", fmt.Sprintf("e%d", i%5), func(o map[string]any) { o["spec"] = map[string]any{"i": int64(i)} })
					if i%3 == 0 {
						w.sim.ExtDelete(res, "ns1", fmt.Sprintf("e%d", i%5), "")
					}
				}
				time.Sleep(200 * time.Microsecond)
			}
		}()
		for i := 0; i < nSubs; i++ {
			wg.Add(1)
			go func(i int) {
				defer wg.Done()
				open := map[int]*ResourceInformer{}
				mine := map[int][]*c18Handler{}
				markGone := func(res int) {
					for _, h := range mine[res] {
						atomic.StoreInt32(&h.gone, 1)
					}
					mine[res] = nil
				}
				for _, st := range plans[i] {
					// a pause of 0-3 ms: long enough for events to be in flight when the next call lands
					time.Sleep(time.Duration(st.pause) * time.Millisecond)
					res := c18Resources[st.res]
					ri := open[st.res]
					switch {
					case ri == nil:
						r, err := w.factory.Resource(w.def(res).APIVersion(), c18Name(res))
						if err != nil {
							errs <- err
							return
						}
						open[st.res] = r
					case st.op == 0 || st.op == 1:
						h := &c18Handler{id: fmt.Sprintf("g%d@%s", i, res), name: c18Name(res), apiVersion: c18APIVersion(res)}
						if (i+len(mine[st.res]))%2 == 1 {
							h.delay = time.Millisecond
						}
						mu.Lock()
						handlers = append(handlers, h)
						mu.Unlock()
						mine[st.res] = append(mine[st.res], h)
						if st.op == 0 {
							ri.Informer().AddEventHandler(h)
						} else {
							ri.Informer().AddEventHandlerWithResyncPeriod(h, 5*time.Millisecond)
						}
					case st.op == 2:
						ri.Informer().RemoveEventHandlers()
						markGone(st.res)
					default:
						ri.Informer().RemoveEventHandlers()
						markGone(st.res)
						ri.Close()
						delete(open, st.res)
					}
				}
				for k, ri := range open {
					ri.Informer().RemoveEventHandlers()
					markGone(k)
					ri.Close()
				}
			}(i)
		}
		done := make(chan struct{})
		go func() { wg.Wait(); close(done) }()
		select {
		case <-done:
		case <-time.After(30 * time.Second):
			close(stopEvents)
			return vs.Violf("C18/deadlock", "concurrent subscribe/add/remove/close did not finish within 30 s")
		}
		close(stopEvents)
		select {
		case err := <-errs:
			return fmt.Errorf("harness: %v", err)
		default:
		}
		c.NonTrivial()
		// everything was closed: no informer may keep running, the factory holds nothing
		for _, res := range c18Names(len(c18Resources)) {
			res := res
			if !poll(5*time.Second, func() bool { return w.sim.OpenWatches()[res] == 0 }) {
				return vs.Violf("C18/informer-lifecycle", "all subscriptions to %s are closed but %d watch stream(s) are still open", res, w.sim.OpenWatches()[res])
			}
		}
		if n := len(w.factory.VerifSharedKeys()); n != 0 {
			return vs.Violf("C18/informer-lifecycle", "all subscriptions are closed but the factory still holds %d shared informer(s)", n)
		}
		mu.Lock()
		sizes := make([]int, len(handlers))
		for i, h := range handlers {
			sizes[i] = h.size()
		}
		mu.Unlock()
		time.Sleep(30 * time.Millisecond)
		for i, h := range handlers {
			if h.size() != sizes[i] {
				return vs.Violf("C18/event-after-removal", "handler %s still receives events after everything was removed and closed", h.id)
			}
			if bad := h.wrong(); bad != "" {
				return vs.Violf("C18/object-at-wrong-version", "handler %s subscribed through %s but was handed %s", h.id, h.apiVersion, bad)
			}
			if n := atomic.LoadInt32(&h.late); n > 0 {
				return vs.Violf("C18/event-after-removal", "handler %s was called %d time(s) after RemoveEventHandlers() had returned for it", h.id, n)
			}
		}
		return nil
	})
}
