package customize

import (
	"metacontroller/pkg/controller/common"
	dynamicinformer "metacontroller/pkg/dynamic/informer"
	"metacontroller/pkg/hooks"

	"k8s.io/apimachinery/pkg/runtime/schema"
)

// VerifSetHook replaces the customize hook (nil disables it).
func (rm *Manager) VerifSetHook(h hooks.Hook) { rm.customizeHook = h }

// VerifSetRelatedInformer pre-seeds the informer used for a related resource.
func (rm *Manager) VerifSetRelatedInformer(gvr schema.GroupVersionResource, inf *dynamicinformer.ResourceInformer) {
	rm.relatedInformers.Set(gvr, inf)
}

// VerifRelatedInformers exposes the lazily created related informers.
func (rm *Manager) VerifRelatedInformers() common.InformerMap { return rm.relatedInformers }

// VerifResetCache drops all cached customize responses.
func (rm *Manager) VerifResetCache() { rm.customizeCache = newResponseCache() }

// VerifOnRelatedAdd/Update/Delete deliver watch events to the related-object handlers.
func (rm *Manager) VerifOnRelatedAdd(obj interface{})         { rm.onRelatedAdd(obj) }
func (rm *Manager) VerifOnRelatedUpdate(old, cur interface{}) { rm.onRelatedUpdate(old, cur) }
func (rm *Manager) VerifOnRelatedDelete(obj interface{})      { rm.onRelatedDelete(obj) }
