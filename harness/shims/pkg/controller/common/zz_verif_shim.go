package common

// VerifResetSSACache clears the process-wide server-side-apply memo.
func VerifResetSSACache() {
	cacheLock.Lock()
	defer cacheLock.Unlock()
	lastUpdatedCache = make(map[string]*lastUpdate)
}

// VerifSSACacheLen returns the number of memo entries.
func VerifSSACacheLen() int {
	cacheLock.RLock()
	defer cacheLock.RUnlock()
	return len(lastUpdatedCache)
}
