package hooks

import (
	"time"

	"metacontroller/pkg/apis/metacontroller/v1alpha1"
	"metacontroller/pkg/cache"
	"metacontroller/pkg/controller/common"
)

// NewVerifHook builds the real hook executor (marshalling, status gate, ETag
// logic, strict/loose decoding) over an in-memory HTTP client.
func NewVerifHook(client HttpClientInterface, url string, hookType common.HookType, mode *v1alpha1.ResponseUnmarshallMode, etag bool, etagTTL time.Duration, now func() time.Time) Hook {
	var abstract webhookAbstract
	if etag {
		abstract = &webhookExecutorEtag{etagCache: cache.New[eTagKey, *eTagEntry](etagTTL, 0)}
	} else {
		abstract = &webhookExecutorPlain{}
	}
	if now == nil {
		now = time.Now
	}
	return &hookExecutorImpl{webhookExecutor: newWebhookExecutor(client, url, hookType, mode, abstract, now)}
}

// NewVerifDisabledHook is a hook that is not configured.
func NewVerifDisabledHook() Hook { return &hookExecutorImpl{} }
