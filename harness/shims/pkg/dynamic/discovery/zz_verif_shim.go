package discovery

// VerifRefresh runs one synchronous discovery refresh.
func (rm *ResourceMap) VerifRefresh() { rm.refresh() }
