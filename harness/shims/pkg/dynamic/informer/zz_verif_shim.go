package informer

import (
	"k8s.io/apimachinery/pkg/runtime/schema"
	"k8s.io/client-go/dynamic/dynamiclister"
	"k8s.io/client-go/tools/cache"
)

// verifInformer is a SharedIndexInformer stub over a harness-owned indexer.
type verifInformer struct {
	cache.SharedIndexInformer
	indexer cache.Indexer
}

func (v *verifInformer) GetIndexer() cache.Indexer { return v.indexer }
func (v *verifInformer) GetStore() cache.Store     { return v.indexer }
func (v *verifInformer) HasSynced() bool           { return true }

// NewVerifResourceInformer builds a ResourceInformer whose cache is the given
// indexer (filled by the verification harness instead of a reflector).
func NewVerifResourceInformer(indexer cache.Indexer, gvr schema.GroupVersionResource, closed *int) *ResourceInformer {
	sri := &sharedResourceInformer{
		informer: &verifInformer{indexer: indexer},
		lister:   dynamiclister.New(indexer, gvr),
		close: func() {
			if closed != nil {
				*closed++
			}
		},
		defaultResyncPeriod: 0,
	}
	sri.eventHandlers = newSharedEventHandler(sri.lister, 0)
	return newResourceInformer(sri)
}

// VerifRefCounts exposes the factory's subscription counts.
func (f *SharedInformerFactory) VerifRefCounts() map[string]int {
	f.mutex.Lock()
	defer f.mutex.Unlock()
	out := map[string]int{}
	for k, v := range f.refCount {
		out[k] = v
	}
	return out
}

// VerifSharedCount exposes how many shared informers the factory holds.
func (f *SharedInformerFactory) VerifSharedKeys() []string {
	f.mutex.Lock()
	defer f.mutex.Unlock()
	var out []string
	for k := range f.sharedInformers {
		out = append(out, k)
	}
	return out
}
