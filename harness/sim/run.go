package verifsim

import (
	"encoding/binary"
	"encoding/json"
	"fmt"
	"hash/fnv"
	"os"
	"path/filepath"
	"runtime/debug"
	"sort"
	"strings"
	"sync"
	"testing"

	"pgregory.net/rapid"
)

// Violation is what a property returns when its oracle is contradicted.
// Sig is a stable, machine-derived signature (monitor rule + call-site class)
// used to match known findings.
type Violation struct {
	Sig string
	Msg string
}

func (v *Violation) Error() string { return v.Sig + ": " + v.Msg }

// Violf builds a violation.
func Violf(sig, format string, args ...any) *Violation {
	return &Violation{Sig: sig, Msg: fmt.Sprintf(format, args...)}
}

// Case is one generated case handed to a property.
type Case struct {
	ch         *recChooser
	classes    []string
	nontrivial bool
	describe   func() any
	run        *runner
	Replaying  bool
	// uniform: weighted/probabilistic choices are enumerated as plain
	// alternatives (exhaustive driver), not by weight.
	uniform bool
}

func (c *Case) Int(n int) int { return c.ch.Int(n) }
func (c *Case) Bool() bool    { return c.ch.Int(2) == 1 }

// Prob returns true with probability num/den (under the random driver).
func (c *Case) Prob(num, den int) bool {
	if c.uniform {
		return c.ch.Int(2) == 1
	}
	return c.ch.Int(den) >= den-num
}

// Range returns a value in [lo,hi].
func (c *Case) Range(lo, hi int) int { return lo + c.ch.Int(hi-lo+1) }

// Weighted picks an index with the given relative weights.
func (c *Case) Weighted(weights ...int) int {
	if c.uniform {
		return c.ch.Int(len(weights))
	}
	total := 0
	for _, w := range weights {
		total += w
	}
	v := c.ch.Int(total)
	for i, w := range weights {
		if v < w {
			return i
		}
		v -= w
	}
	return len(weights) - 1
}

// PickStr picks one of the given strings.
func (c *Case) PickStr(opts ...string) string { return opts[c.ch.Int(len(opts))] }

// Class records a coverage class label for this case.
func (c *Case) Class(format string, args ...any) {
	c.classes = append(c.classes, fmt.Sprintf(format, args...))
}

// NonTrivial marks the case as non-trivial by the property's stated rule.
func (c *Case) NonTrivial() { c.nontrivial = true }

// Describe registers a lazy description used for evidence samples and replays.
func (c *Case) Describe(f func() any) { c.describe = f }

// Known reports a violation whose signature may be a listed open finding.
// If it is listed, the hit is counted and nil is returned so the search goes
// on; otherwise the violation is returned for the property to fail with.
func (c *Case) Known(v *Violation) error {
	if v == nil {
		return nil
	}
	if c.run != nil && c.run.known[v.Sig] {
		c.run.mu.Lock()
		c.run.stats.KnownHits[v.Sig]++
		if _, ok := c.run.stats.KnownExamples[v.Sig]; !ok {
			c.run.stats.KnownExamples[v.Sig] = v.Msg
		}
		c.run.mu.Unlock()
		return nil
	}
	return v
}

// Trace returns the choices made so far.
func (c *Case) Trace() []int { return append([]int(nil), c.ch.trace...) }

// Prop is an executable property over one generated case.
type Prop func(c *Case) error

// Stats is what one test run reports to the driver.
type Stats struct {
	Property      string            `json:"property"`
	Test          string            `json:"test"`
	Driver        string            `json:"driver"`
	Evaluations   int               `json:"evaluations"`
	NonTrivial    int               `json:"nontrivial"`
	Distinct      int               `json:"distinct_nontrivial"`
	Classes       map[string]int    `json:"classes"`
	Samples       []any             `json:"samples"`
	KnownHits     map[string]int    `json:"known_hits"`
	KnownExamples map[string]string `json:"known_examples"`
	Exhaustive    bool              `json:"exhaustive"`
	Replayed      int               `json:"replayed_corpus"`
	Violations    int               `json:"violations"`
	Extra         map[string]any    `json:"extra,omitempty"`
}

type runner struct {
	mu       sync.Mutex
	id, test string
	stats    Stats
	hashes   map[uint64]struct{}
	known    map[string]bool
	failed   bool
	uniform  bool
	ntSample int
	trSample int
}

func outDir() string {
	d := os.Getenv("VERIF_OUT")
	if d == "" {
		d = "."
	}
	return d
}

func newRunner(id, test, driver string) *runner {
	r := &runner{id: id, test: test, hashes: map[uint64]struct{}{}, known: map[string]bool{}}
	r.stats = Stats{Property: id, Test: test, Driver: driver, Classes: map[string]int{},
		KnownHits: map[string]int{}, KnownExamples: map[string]string{}, Extra: map[string]any{}}
	for _, s := range strings.Split(os.Getenv("VERIF_KNOWN"), ",") {
		if s = strings.TrimSpace(s); s != "" {
			r.known[s] = true
		}
	}
	return r
}

func hashTrace(tr []int) uint64 {
	h := fnv.New64a()
	var b [8]byte
	for _, v := range tr {
		binary.LittleEndian.PutUint64(b[:], uint64(v))
		h.Write(b[:])
	}
	return h.Sum64()
}

// execute runs prop once, converting panics to violations.
func (r *runner) execute(ch Chooser, prop Prop, replaying bool) (c *Case, err error) {
	c = &Case{ch: &recChooser{inner: ch}, run: r, Replaying: replaying, uniform: r.uniform}
	defer func() {
		if p := recover(); p != nil {
			if isRapidControl(p) {
				panic(p)
			}
			err = &Violation{Sig: "panic", Msg: fmt.Sprintf("%v\n%s", p, trimStack(string(debug.Stack())))}
		}
	}()
	err = prop(c)
	return c, err
}

// rapid signals invalid data / stop via panics of its own unexported types;
// let those through untouched.
func isRapidControl(p any) bool {
	s := fmt.Sprintf("%T", p)
	return strings.HasPrefix(s, "rapid.")
}

func trimStack(s string) string {
	lines := strings.Split(s, "\n")
	var keep []string
	for i := 0; i < len(lines) && len(keep) < 40; i++ {
		if strings.Contains(lines[i], "metacontroller/") || strings.Contains(lines[i], "panic") {
			keep = append(keep, lines[i])
			if i+1 < len(lines) && strings.HasPrefix(lines[i+1], "\t") {
				keep = append(keep, lines[i+1])
			}
		}
	}
	return strings.Join(keep, "\n")
}

func (r *runner) account(c *Case) {
	r.mu.Lock()
	defer r.mu.Unlock()
	if r.failed {
		return
	}
	r.stats.Evaluations++
	for _, cl := range c.classes {
		r.stats.Classes[cl]++
	}
	if c.nontrivial {
		r.stats.NonTrivial++
		r.hashes[hashTrace(c.ch.trace)] = struct{}{}
	}
	if c.describe != nil {
		if c.nontrivial && r.ntSample < 3 {
			r.ntSample++
			r.stats.Samples = append(r.stats.Samples, map[string]any{"nontrivial": true, "case": safeDescribe(c), "classes": c.classes})
		} else if !c.nontrivial && r.trSample < 1 {
			r.trSample++
			r.stats.Samples = append(r.stats.Samples, map[string]any{"nontrivial": false, "case": safeDescribe(c), "classes": c.classes})
		}
	}
}

func safeDescribe(c *Case) (out any) {
	defer func() {
		if p := recover(); p != nil {
			out = fmt.Sprintf("<describe panicked: %v>", p)
		}
	}()
	if c.describe == nil {
		return nil
	}
	v := c.describe()
	// round-trip through JSON so the sample is plain data
	b, err := json.Marshal(v)
	if err != nil {
		return fmt.Sprintf("%v", v)
	}
	var x any
	_ = json.Unmarshal(b, &x)
	return x
}

// Replay is the on-disk reproduction of one case.
type Replay struct {
	Property    string `json:"property"`
	Package     string `json:"package"`
	Test        string `json:"test"`
	Choices     []int  `json:"choices"`
	Signature   string `json:"signature,omitempty"`
	Error       string `json:"error,omitempty"`
	Description any    `json:"description,omitempty"`
	Note        string `json:"note,omitempty"`
}

func (r *runner) writeReplay(c *Case, err error) string {
	rp := Replay{Property: r.id, Package: os.Getenv("VERIF_PKG"), Test: r.test, Choices: c.ch.trace, Error: err.Error(), Description: safeDescribe(c)}
	if v, ok := err.(*Violation); ok {
		rp.Signature = v.Sig
	}
	b, _ := json.MarshalIndent(rp, "", " ")
	p := filepath.Join(outDir(), fmt.Sprintf("replay-%s-%s.json", r.id, r.test))
	_ = os.WriteFile(p, b, 0o644)
	return p
}

func (r *runner) finish() {
	r.mu.Lock()
	defer r.mu.Unlock()
	r.stats.Distinct = len(r.hashes)
	b, _ := json.MarshalIndent(r.stats, "", " ")
	_ = os.WriteFile(filepath.Join(outDir(), fmt.Sprintf("stats-%s-%s.json", r.id, r.test)), b, 0o644)
	hs := make([]uint64, 0, len(r.hashes))
	for h := range r.hashes {
		hs = append(hs, h)
	}
	sort.Slice(hs, func(i, j int) bool { return hs[i] < hs[j] })
	buf := make([]byte, 8*len(hs))
	for i, h := range hs {
		binary.LittleEndian.PutUint64(buf[8*i:], h)
	}
	_ = os.WriteFile(filepath.Join(outDir(), fmt.Sprintf("hashes-%s-%s.bin", r.id, r.test)), buf, 0o644)
}

// SetExtra lets a test attach additional coverage numbers to the stats file.
func (r *runner) setExtra(k string, v any) {
	r.mu.Lock()
	r.stats.Extra[k] = v
	r.mu.Unlock()
}

func loadReplay(path string) (*Replay, error) {
	b, err := os.ReadFile(path)
	if err != nil {
		return nil, err
	}
	var rp Replay
	if err := json.Unmarshal(b, &rp); err != nil {
		return nil, err
	}
	return &rp, nil
}

// corpusFiles lists the committed regression replays for (id,test).
func corpusFiles(id, test string) []string {
	dir := os.Getenv("VERIF_CORPUS")
	if dir == "" {
		return nil
	}
	all, _ := filepath.Glob(filepath.Join(dir, id, "*.json"))
	var out []string
	for _, f := range all {
		rp, err := loadReplay(f)
		if err == nil && rp.Test == test {
			out = append(out, f)
		}
	}
	sort.Strings(out)
	return out
}

// replayOnly handles VERIF_REPLAY: returns true if this run is a pure replay.
func (r *runner) replayOnly(t *testing.T, prop Prop) bool {
	path := os.Getenv("VERIF_REPLAY")
	if path == "" {
		return false
	}
	rp, err := loadReplay(path)
	if err != nil {
		t.Fatalf("verif: cannot load replay %s: %v", path, err)
	}
	if rp.Test != r.test {
		t.Skipf("replay is for test %s", rp.Test)
	}
	c, err := r.execute(&replayChooser{trace: rp.Choices}, prop, true)
	r.account(c)
	if err != nil {
		p := r.writeReplay(c, err)
		r.stats.Violations++
		t.Fatalf("VERIF-VIOLATION property=%s replayfile=%s\n%v", r.id, p, err)
	}
	t.Logf("replay %s: property held", path)
	return true
}

// runCorpus re-executes the committed regression corpus for this test.
func (r *runner) runCorpus(t *testing.T, prop Prop) bool {
	for _, f := range corpusFiles(r.id, r.test) {
		rp, err := loadReplay(f)
		if err != nil {
			continue
		}
		c, err := r.execute(&replayChooser{trace: rp.Choices}, prop, true)
		if rp.Description != nil && !JSONEqual(safeDescribe(c), rp.Description) {
			// the generators changed since this trace was recorded: it no longer
			// denotes the recorded case, so it decides nothing
			n, _ := r.stats.Extra["stale_corpus_entries"].(int)
			r.stats.Extra["stale_corpus_entries"] = n + 1
			continue
		}
		r.account(c)
		r.stats.Replayed++
		if err != nil {
			p := r.writeReplay(c, err)
			r.stats.Violations++
			r.failed = true
			t.Errorf("VERIF-VIOLATION property=%s replayfile=%s (regression corpus %s)\n%v", r.id, p, f, err)
			return false
		}
	}
	return true
}

// Run drives prop with rapid (random generation + shrinking). The number of
// cases comes from -rapid.checks, the seed from -rapid.seed.
func Run(t *testing.T, id string, prop Prop) {
	r := newRunner(id, t.Name(), "rapid")
	defer r.finish()
	if r.replayOnly(t, prop) {
		return
	}
	if !r.runCorpus(t, prop) {
		return
	}
	if os.Getenv("VERIF_CORPUS_ONLY") != "" {
		return
	}
	rapid.Check(t, func(rt *rapid.T) {
		ch := chooserFunc(func(n int) int {
			if n == 1 {
				return 0
			}
			return rapid.IntRange(0, n-1).Draw(rt, "c")
		})
		c, err := r.execute(ch, prop, false)
		if err != nil {
			r.mu.Lock()
			r.failed = true
			r.stats.Violations = 1
			r.mu.Unlock()
			p := r.writeReplay(c, err)
			rt.Fatalf("VERIF-VIOLATION property=%s replayfile=%s\n%v", id, p, err)
		}
		r.account(c)
	})
}

type chooserFunc func(n int) int

func (f chooserFunc) Int(n int) int { return f(n) }

// RunExhaustive enumerates every choice sequence of prop (depth-first). It
// stops with an inconclusive failure if more than maxCases would be needed.
func RunExhaustive(t *testing.T, id string, maxCases int, prop Prop) {
	r := newRunner(id, t.Name(), "exhaustive")
	r.uniform = true
	defer r.finish()
	if r.replayOnly(t, prop) {
		return
	}
	if !r.runCorpus(t, prop) {
		return
	}
	if os.Getenv("VERIF_CORPUS_ONLY") != "" {
		return
	}
	e := &exhChooser{}
	shard, shards := 0, 1
	fmt.Sscan(os.Getenv("VERIF_SHARD"), &shard)
	fmt.Sscan(os.Getenv("VERIF_SHARDS"), &shards)
	if shards < 1 {
		shards = 1
	}
	mine := func() bool {
		// split the space on the first two choice positions
		if shards == 1 || len(e.prefix) == 0 {
			return shard == 0
		}
		// (a position not drawn yet counts as 0, which is the value it will get)
		idx := e.prefix[0] * 1009
		if len(e.prefix) > 1 {
			idx += e.prefix[1]
		}
		return idx%shards == shard
	}
	n := 0
	for {
		// a prefix shorter than two positions has to be executed to learn its
		// continuation (and the bounds); it only counts for the shard that owns it
		if len(e.prefix) < 2 || mine() {
			c, err := r.execute(e, prop, false)
			if mine() {
				if err != nil {
					r.failed = true
					r.stats.Violations = 1
					p := r.writeReplay(c, err)
					t.Fatalf("VERIF-VIOLATION property=%s replayfile=%s\n%v", id, p, err)
				}
				r.account(c)
				n++
			}
		} else {
			// not ours: skip the whole subtree below the first two positions
			e.prefix = e.prefix[:2]
			e.bounds = e.bounds[:2]
			e.pos = 2
		}
		if !e.next() {
			r.stats.Exhaustive = true
			r.stats.Extra["exhaustive_shards"] = shards
			return
		}
		if n >= maxCases {
			r.stats.Exhaustive = false
			r.stats.Extra["truncated_at"] = n
			t.Logf("verif: exhaustive enumeration truncated at %d cases", n)
			return
		}
	}
}

// RunSeeded runs prop on an explicit list of choice traces plus random ones
// (used by fuzz-derived regression inputs).
func RunTraces(t *testing.T, id string, traces [][]int, prop Prop) {
	r := newRunner(id, t.Name(), "traces")
	defer r.finish()
	if r.replayOnly(t, prop) {
		return
	}
	for _, tr := range traces {
		c, err := r.execute(&replayChooser{trace: tr}, prop, false)
		if err != nil {
			r.failed = true
			r.stats.Violations = 1
			p := r.writeReplay(c, err)
			t.Fatalf("VERIF-VIOLATION property=%s replayfile=%s\n%v", id, p, err)
		}
		r.account(c)
	}
}

// Tier returns the tier the driver asked for ("quick" unless VERIF_TIER says otherwise).
func Tier() string {
	if os.Getenv("VERIF_TIER") == "thorough" {
		return "thorough"
	}
	return "quick"
}

// RunFixed runs a list of hand-written deterministic regression cases (each a
// plain function, no generator involved). A failure is reported like any other
// violation; the replay file names the case.
func RunFixed(t *testing.T, id string, cases map[string]func() error) {
	r := newRunner(id, t.Name(), "fixed")
	defer r.finish()
	only := ""
	if path := os.Getenv("VERIF_REPLAY"); path != "" {
		rp, err := loadReplay(path)
		if err != nil {
			t.Fatalf("verif: cannot load replay %s: %v", path, err)
		}
		if rp.Test != r.test {
			t.Skipf("replay is for test %s", rp.Test)
		}
		only = rp.Note
	}
	names := make([]string, 0, len(cases))
	for n := range cases {
		names = append(names, n)
	}
	sort.Strings(names)
	for _, n := range names {
		if only != "" && only != n {
			continue
		}
		f := cases[n]
		c, err := r.execute(&replayChooser{}, func(c *Case) error {
			c.Class("fixed:%s", n)
			c.NonTrivial()
			for _, b := range []byte(n) {
				c.ch.trace = append(c.ch.trace, int(b))
			}
			c.Describe(func() any { return map[string]any{"regression_case": n} })
			return f()
		}, false)
		r.account(c)
		if err != nil {
			if v, ok := err.(*Violation); ok {
				if c.Known(v) == nil {
					continue
				}
			}
			r.failed = true
			r.stats.Violations++
			rp := Replay{Property: id, Package: os.Getenv("VERIF_PKG"), Test: r.test, Error: err.Error(), Note: n, Description: map[string]any{"regression_case": n}}
			if v, ok := err.(*Violation); ok {
				rp.Signature = v.Sig
			}
			b, _ := json.MarshalIndent(rp, "", " ")
			p := filepath.Join(outDir(), fmt.Sprintf("replay-%s-%s-%s.json", id, r.test, n))
			_ = os.WriteFile(p, b, 0o644)
			t.Errorf("VERIF-VIOLATION property=%s replayfile=%s\n%v", id, p, err)
		}
	}
}

// NewReplayCase builds a detached case that replays a fixed choice trace
// (for deterministic sub-generators inside a larger case).
func NewReplayCase(trace []int) *Case {
	return &Case{ch: &recChooser{inner: &replayChooser{trace: trace}}}
}

// bytesChooser turns fuzzer-provided bytes into choices (coverage-guided structured fuzzing).
type bytesChooser struct {
	data []byte
	pos  int
}

func (b *bytesChooser) Int(n int) int {
	if n <= 1 {
		return 0
	}
	if b.pos >= len(b.data) {
		return 0
	}
	v := int(b.data[b.pos])
	b.pos++
	if n > 256 && b.pos < len(b.data) {
		v = v<<8 | int(b.data[b.pos])
		b.pos++
	}
	return v % n
}

// RunFuzz drives prop with Go's native fuzzer: the input bytes become the choice
// sequence. replayTest names the (rapid) test over the same property through which
// a recorded choice trace can be replayed.
func RunFuzz(f *testing.F, id, replayTest string, seeds [][]byte, prop Prop) {
	for _, s := range seeds {
		f.Add(s)
	}
	f.Fuzz(func(t *testing.T, data []byte) {
		r := newRunner(id, replayTest, "go-fuzz")
		c, err := r.execute(&bytesChooser{data: data}, prop, false)
		if err != nil {
			if v, ok := err.(*Violation); ok && r.known[v.Sig] {
				return
			}
			p := r.writeReplay(c, err)
			t.Fatalf("VERIF-VIOLATION property=%s replayfile=%s\n%v", id, p, err)
		}
	})
}
