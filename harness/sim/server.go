package verifsim

import (
	"bytes"
	"encoding/json"
	"fmt"
	"io"
	"net/http"
	"net/url"
	"sort"
	"strconv"
	"strings"
	"sync"
	"time"

	jsonpatch "github.com/evanphx/json-patch/v5"
	apivalidation "k8s.io/apimachinery/pkg/api/validation"
	metav1 "k8s.io/apimachinery/pkg/apis/meta/v1"
	"k8s.io/apimachinery/pkg/apis/meta/v1/unstructured"
	"k8s.io/apimachinery/pkg/labels"
	"k8s.io/apimachinery/pkg/runtime"
	"k8s.io/apimachinery/pkg/runtime/schema"
	"k8s.io/apimachinery/pkg/util/managedfields"
	"k8s.io/apimachinery/pkg/util/validation/field"
	"sigs.k8s.io/yaml"
)

// ResourceDef describes one resource served by the simulator.
type ResourceDef struct {
	Group, Version, Resource, Kind string
	Namespaced                     bool
	HasStatus                      bool
	// AllowUnconditionalUpdate: PUT without resourceVersion is accepted
	// (core types); custom resources reject it with 422.
	AllowUnconditionalUpdate bool
	// NoGeneration: metadata.generation is not maintained (e.g. ConfigMap).
	NoGeneration bool
	// Hidden: served, but not (yet) listed by discovery - a CRD that is not installed yet
	// as far as clients can tell. Flip with SetHidden.
	Hidden bool
	// Alias: the name the harness uses for this definition when another definition has the same plural
	// in a different API group (Def, ListAll, ExtCreate ... take Name()). Empty: the plural itself.
	Alias string
}

// Name is the harness-side name of the definition (the plural, unless an alias was given).
func (d *ResourceDef) Name() string {
	if d.Alias != "" {
		return d.Alias
	}
	return d.Resource
}

func (d *ResourceDef) GVR() schema.GroupVersionResource {
	return schema.GroupVersionResource{Group: d.Group, Version: d.Version, Resource: d.Resource}
}
func (d *ResourceDef) GVK() schema.GroupVersionKind {
	return schema.GroupVersionKind{Group: d.Group, Version: d.Version, Kind: d.Kind}
}
func (d *ResourceDef) APIVersion() string {
	if d.Group == "" {
		return d.Version
	}
	return d.Group + "/" + d.Version
}

// Request is one logged API request.
type Request struct {
	Seq         int
	Epoch       int // harness-assigned (e.g. sync number)
	Actor       string
	Verb        string // get list watch create update patch delete
	Def         *ResourceDef
	Namespace   string
	Name        string
	Subresource string
	PatchType   string
	Query       url.Values
	Body        map[string]any // decoded request object / DeleteOptions
	Raw         []byte
	Pre, Post   map[string]any // stored object before / after (deep copies)
	Code        int
	Reason      string
	Message     string
	Injected    bool // response produced by fault injection
	Dropped     bool // never reached the store (crash model)
}

func (r *Request) Mutating() bool {
	switch r.Verb {
	case "create", "update", "patch", "delete":
		return true
	}
	return false
}
func (r *Request) Accepted() bool { return r.Code >= 200 && r.Code < 300 && !r.Dropped }
func (r *Request) String() string {
	sub := ""
	if r.Subresource != "" {
		sub = "/" + r.Subresource
	}
	return fmt.Sprintf("#%d %s %s %s/%s%s -> %d %s", r.Seq, r.Verb, r.Def.Resource, r.Namespace, r.Name, sub, r.Code, r.Reason)
}

// Fault is what a Before hook may return to disturb a request.
type Fault struct {
	// Code/Reason: respond with this API error. If AfterCommit, the request is
	// executed first and the error returned instead of the success response.
	Code        int
	Reason      metav1.StatusReason
	Message     string
	AfterCommit bool
	// Transport: fail the round trip itself (connection error / timeout).
	Transport error
}

// Server is the in-memory API server; it implements http.RoundTripper.
type Server struct {
	mu     sync.Mutex
	defs   []*ResourceDef
	byGVR  map[schema.GroupVersionResource]*ResourceDef
	objs   map[string]map[string]any
	rv     int64
	uidN   int64
	Log    []*Request
	seq    int
	Epoch  int
	events []simEvent
	subs   map[int]*watchSub
	subN   int
	fms    map[schema.GroupVersionKind]*managedfields.FieldManager

	// TrackManagedFields makes updates/creates/applies maintain
	// metadata.managedFields via apimachinery's field manager.
	TrackManagedFields bool
	minWatchRV         map[string]int64
	// SubresourcesFirst: discovery lists "<resource>/status" before "<resource>".
	SubresourcesFirst bool
	// Before is invoked (without the store lock) before each controller
	// request is processed; it may run outside writers or return a fault.
	Before func(r *Request) *Fault
	// Dead: every request fails at transport level and does not reach the store.
	Dead bool
	// ListCalls / WatchCalls counters per resource.
	ListCalls, WatchCalls map[string]int
	// Now is the timestamp source (fixed; the harness owns time).
	Now string
}

type simEvent struct {
	rv   int64
	def  *ResourceDef
	typ  string
	obj  map[string]any
	ns   string
	name string
}

type watchSub struct {
	def    *ResourceDef
	ns     string
	ch     chan simEvent
	closed bool
	kill   chan struct{} // closed by ExpireWatches: the server drops the connection
}

// NewServer creates a simulator serving the given resources.
func NewServer(defs []*ResourceDef) *Server {
	s := &Server{defs: defs, byGVR: map[schema.GroupVersionResource]*ResourceDef{}, objs: map[string]map[string]any{},
		subs: map[int]*watchSub{}, fms: map[schema.GroupVersionKind]*managedfields.FieldManager{},
		ListCalls: map[string]int{}, WatchCalls: map[string]int{}, Now: "2024-01-01T00:00:00Z", rv: 100}
	for _, d := range defs {
		s.byGVR[d.GVR()] = d
	}
	return s
}

func (s *Server) Def(resource string) *ResourceDef {
	for _, d := range s.defs {
		if d.Name() == resource {
			return d
		}
	}
	panic("verifsim: unknown resource " + resource)
}

func (s *Server) DefByKind(apiVersion, kind string) *ResourceDef {
	for _, d := range s.defs {
		if d.Kind == kind && d.APIVersion() == apiVersion {
			return d
		}
	}
	return nil
}

func (s *Server) Defs() []*ResourceDef { return s.defs }

// sameStore: two definitions that differ only in version serve the same stored objects
// (a resource with several served versions and no schema differences).
func sameStore(a, b *ResourceDef) bool {
	return a == b || (a.Group == b.Group && a.Resource == b.Resource)
}

// present renders a stored object at the version it is read through.
func present(d *ResourceDef, obj map[string]any) map[string]any {
	if obj != nil {
		if _, isStatus := obj["status"].(string); !(isStatus && obj["kind"] == "Status") {
			obj["apiVersion"] = d.APIVersion()
		}
	}
	return obj
}

func okey(d *ResourceDef, ns, name string) string {
	return d.Group + "/" + d.Resource + "|" + ns + "|" + name
}

// ---- error helpers -----------------------------------------------------------

type apiErr struct {
	code    int
	reason  metav1.StatusReason
	message string
	causes  field.ErrorList
}

func errNotFound(d *ResourceDef, name string) *apiErr {
	return &apiErr{404, metav1.StatusReasonNotFound, fmt.Sprintf("%s %q not found", d.Resource, name), nil}
}
func errConflict(d *ResourceDef, name, msg string) *apiErr {
	return &apiErr{409, metav1.StatusReasonConflict, fmt.Sprintf("Operation cannot be fulfilled on %s %q: %s", d.Resource, name, msg), nil}
}
func errExists(d *ResourceDef, name string) *apiErr {
	return &apiErr{409, metav1.StatusReasonAlreadyExists, fmt.Sprintf("%s %q already exists", d.Resource, name), nil}
}
func errInvalid(d *ResourceDef, name string, errs field.ErrorList) *apiErr {
	return &apiErr{422, metav1.StatusReasonInvalid, fmt.Sprintf("%s %q is invalid: %v", d.Kind, name, errs.ToAggregate()), errs}
}
func errBadRequest(msg string) *apiErr {
	return &apiErr{400, metav1.StatusReasonBadRequest, msg, nil}
}

func (e *apiErr) status(d *ResourceDef, name string) map[string]any {
	st := map[string]any{"kind": "Status", "apiVersion": "v1", "metadata": map[string]any{}, "status": "Failure",
		"message": e.message, "reason": string(e.reason), "code": e.code}
	if d != nil {
		st["details"] = map[string]any{"name": name, "group": d.Group, "kind": d.Resource}
	}
	return st
}

// ---- store primitives (call with s.mu held) -----------------------------------

func (s *Server) nextRV() string {
	s.rv++
	return strconv.FormatInt(s.rv, 10)
}

func (s *Server) emit(d *ResourceDef, typ string, obj map[string]any) {
	ev := simEvent{rv: s.rv, def: d, typ: typ, obj: CopyMap(obj), ns: nsOf(obj), name: nameOf(obj)}
	s.events = append(s.events, ev)
	for _, sub := range s.subs {
		if sub.closed || !sameStore(sub.def, d) {
			continue
		}
		if sub.ns != "" && sub.ns != ev.ns {
			continue
		}
		sub.ch <- ev
	}
}

func metaOf(obj map[string]any) map[string]any {
	m, _ := obj["metadata"].(map[string]any)
	if m == nil {
		m = map[string]any{}
		obj["metadata"] = m
	}
	return m
}
func nsOf(obj map[string]any) string   { s, _ := metaOf(obj)["namespace"].(string); return s }
func nameOf(obj map[string]any) string { s, _ := metaOf(obj)["name"].(string); return s }
func uidOf(obj map[string]any) string  { s, _ := metaOf(obj)["uid"].(string); return s }
func rvOf(obj map[string]any) string   { s, _ := metaOf(obj)["resourceVersion"].(string); return s }

func finalizersOf(obj map[string]any) []string {
	l, _ := metaOf(obj)["finalizers"].([]any)
	var out []string
	for _, x := range l {
		if s, ok := x.(string); ok {
			out = append(out, s)
		}
	}
	return out
}

func stripForGeneration(obj map[string]any) map[string]any {
	c := map[string]any{}
	for k, v := range obj {
		if k == "metadata" || k == "status" {
			continue
		}
		c[k] = v
	}
	return c
}

// normalizeMeta mimics the ObjectMeta round trip of the real server: empty
// maps and lists in metadata are omitted (omitempty).
// dropNullStatus mimics structural-schema pruning: a null for the (non-nullable)
// status object is dropped before the object is stored.
func dropNullStatus(obj map[string]any) {
	if v, ok := obj["status"]; ok && v == nil {
		delete(obj, "status")
	}
}

func normalizeMeta(m map[string]any) {
	for _, k := range []string{"ownerReferences", "finalizers", "managedFields"} {
		if l, ok := m[k].([]any); ok && len(l) == 0 {
			delete(m, k)
		}
		if v, ok := m[k]; ok && v == nil {
			delete(m, k)
		}
	}
	for _, k := range []string{"labels", "annotations"} {
		if mm, ok := m[k].(map[string]any); ok && len(mm) == 0 {
			delete(m, k)
		}
		if v, ok := m[k]; ok && v == nil {
			delete(m, k)
		}
	}
}

func (s *Server) create(d *ResourceDef, ns string, in map[string]any) (map[string]any, *apiErr) {
	obj := CopyMap(in)
	dropNullStatus(obj)
	m := metaOf(obj)
	normalizeMeta(m)
	name, _ := m["name"].(string)
	if name == "" {
		if gn, _ := m["generateName"].(string); gn != "" {
			s.uidN++
			name = fmt.Sprintf("%s%05d", gn, s.uidN)
			m["name"] = name
		} else {
			return nil, errInvalid(d, "", field.ErrorList{field.Required(field.NewPath("metadata", "name"), "name or generateName is required")})
		}
	}
	if d.Namespaced {
		bodyNS, _ := m["namespace"].(string)
		if ns == "" {
			// POST of a namespaced kind on the all-namespaces collection path
			return nil, &apiErr{405, metav1.StatusReasonMethodNotAllowed, "the server does not allow this method on the requested resource", nil}
		}
		if bodyNS != "" && bodyNS != ns {
			return nil, errBadRequest(fmt.Sprintf("the namespace of the provided object does not match the namespace sent on the request"))
		}
		m["namespace"] = ns
	} else {
		if bodyNS, _ := m["namespace"].(string); bodyNS != "" {
			// cluster-scoped: namespace is cleared by the server
			delete(m, "namespace")
		}
		ns = ""
	}
	obj["apiVersion"] = d.APIVersion()
	obj["kind"] = d.Kind
	key := okey(d, ns, name)
	if _, ok := s.objs[key]; ok {
		return nil, errExists(d, name)
	}
	s.uidN++
	m["uid"] = fmt.Sprintf("uid-%04d", s.uidN)
	// one second per created object: creation order is visible in the timestamps, as on a real cluster
	m["creationTimestamp"] = time.Date(2024, 1, 1, 0, 0, 0, 0, time.UTC).Add(time.Duration(s.uidN) * time.Second).Format(time.RFC3339)
	delete(m, "deletionTimestamp")
	delete(m, "deletionGracePeriodSeconds")
	delete(m, "selfLink")
	if !d.NoGeneration {
		m["generation"] = int64(1)
	} else {
		delete(m, "generation")
	}
	if d.HasStatus {
		delete(obj, "status")
	}
	u := &unstructured.Unstructured{Object: obj}
	if errs := apivalidation.ValidateObjectMetaAccessor(u, d.Namespaced, apivalidation.NameIsDNSSubdomain, field.NewPath("metadata")); len(errs) > 0 {
		return nil, errInvalid(d, name, errs)
	}
	m["resourceVersion"] = s.nextRV()
	s.objs[key] = obj
	s.emit(d, "ADDED", obj)
	return CopyMap(obj), nil
}

// update implements PUT on the main resource or the status subresource.
func (s *Server) update(d *ResourceDef, ns, name, sub string, in map[string]any, requireRV bool) (map[string]any, *apiErr) {
	key := okey(d, ns, name)
	old, ok := s.objs[key]
	if !ok {
		return nil, errNotFound(d, name)
	}
	obj := CopyMap(in)
	dropNullStatus(obj)
	m := metaOf(obj)
	normalizeMeta(m)
	if bn, _ := m["name"].(string); bn != "" && bn != name {
		return nil, errBadRequest("the name of the object (" + bn + ") does not match the name on the URL (" + name + ")")
	}
	m["name"] = name
	if d.Namespaced {
		if bns, _ := m["namespace"].(string); bns != "" && bns != ns {
			return nil, errBadRequest("the namespace of the provided object does not match the namespace sent on the request")
		}
		m["namespace"] = ns
	}
	om := metaOf(old)
	inRV, _ := m["resourceVersion"].(string)
	if inRV == "" {
		if requireRV && !d.AllowUnconditionalUpdate {
			return nil, errInvalid(d, name, field.ErrorList{field.Invalid(field.NewPath("metadata", "resourceVersion"), 0, "must be specified for an update")})
		}
	} else if inRV != rvOf(old) {
		return nil, errConflict(d, name, "the object has been modified; please apply your changes to the latest version and try again")
	}
	if inUID, _ := m["uid"].(string); inUID != "" && inUID != uidOf(old) {
		return nil, errConflict(d, name, fmt.Sprintf("Precondition failed: UID in precondition: %v, UID in object meta: %v", inUID, uidOf(old)))
	}
	// rest.BeforeUpdate: system metadata is preserved
	m["uid"] = om["uid"]
	m["creationTimestamp"] = om["creationTimestamp"]
	if v, ok := om["deletionTimestamp"]; ok {
		m["deletionTimestamp"] = v
	}
	if v, ok := om["deletionGracePeriodSeconds"]; ok {
		if _, has := m["deletionGracePeriodSeconds"]; !has {
			m["deletionGracePeriodSeconds"] = v
		}
	}
	delete(m, "selfLink")
	m["resourceVersion"] = rvOf(old)
	obj["apiVersion"] = d.APIVersion()
	obj["kind"] = d.Kind

	if sub == "status" {
		// status strategy: everything except .status is taken from the old object
		// (metadata updates through /status are ignored, like the CR status strategy does)
		st, has := obj["status"]
		obj = CopyMap(old)
		if has {
			obj["status"] = st
		} else {
			delete(obj, "status")
		}
		m = metaOf(obj)
	} else {
		if d.HasStatus {
			if st, ok := old["status"]; ok {
				obj["status"] = DeepCopyAny(st)
			} else {
				delete(obj, "status")
			}
		}
		if !d.NoGeneration {
			m["generation"] = om["generation"]
		} else {
			delete(m, "generation")
		}
		if _, ok := m["managedFields"]; !ok {
			if v, ok := om["managedFields"]; ok {
				m["managedFields"] = DeepCopyAny(v)
			}
		}
	}
	newU := &unstructured.Unstructured{Object: obj}
	oldU := &unstructured.Unstructured{Object: old}
	if errs := apivalidation.ValidateObjectMetaAccessorUpdate(newU, oldU, field.NewPath("metadata")); len(errs) > 0 {
		return nil, errInvalid(d, name, errs)
	}
	if errs := apivalidation.ValidateFinalizers(newU.GetFinalizers(), field.NewPath("metadata", "finalizers")); len(errs) > 0 {
		return nil, errInvalid(d, name, errs)
	}
	if sub != "status" && !d.NoGeneration && !jsonEqual(stripForGeneration(obj), stripForGeneration(old)) {
		g, _ := toFloat(om["generation"])
		m["generation"] = int64(g) + 1
	}
	// a deleting object whose finalizers are now empty goes away
	if _, deleting := m["deletionTimestamp"]; deleting && len(finalizersOf(obj)) == 0 {
		m["resourceVersion"] = s.nextRV()
		delete(s.objs, key)
		s.emit(d, "DELETED", obj)
		return CopyMap(obj), nil
	}
	if jsonEqual(obj, old) {
		// no-op update: resourceVersion does not change
		return CopyMap(old), nil
	}
	m["resourceVersion"] = s.nextRV()
	s.objs[key] = obj
	s.emit(d, "MODIFIED", obj)
	return CopyMap(obj), nil
}

func jsonEqual(a, b any) bool {
	ab, _ := json.Marshal(a)
	bb, _ := json.Marshal(b)
	return bytes.Equal(ab, bb)
}

func (s *Server) delete(d *ResourceDef, ns, name string, opts map[string]any) (map[string]any, bool, *apiErr) {
	key := okey(d, ns, name)
	old, ok := s.objs[key]
	if !ok {
		return nil, false, errNotFound(d, name)
	}
	if pre, _ := opts["preconditions"].(map[string]any); pre != nil {
		if u, _ := pre["uid"].(string); u != "" && u != uidOf(old) {
			return nil, false, errConflict(d, name, fmt.Sprintf("Precondition failed: UID in precondition: %v, UID in object meta: %v", u, uidOf(old)))
		}
		if r, _ := pre["resourceVersion"].(string); r != "" && r != rvOf(old) {
			return nil, false, errConflict(d, name, fmt.Sprintf("Precondition failed: ResourceVersion in precondition: %v, ResourceVersion in object meta: %v", r, rvOf(old)))
		}
	}
	obj := CopyMap(old)
	m := metaOf(obj)
	fins := finalizersOf(obj)
	policy, _ := opts["propagationPolicy"].(string)
	if orphan, ok := opts["orphanDependents"].(bool); ok && policy == "" {
		if orphan {
			policy = "Orphan"
		} else {
			policy = "Background"
		}
	}
	addFin := func(f string) {
		for _, x := range fins {
			if x == f {
				return
			}
		}
		fins = append(fins, f)
	}
	dropFin := func(f string) {
		var out []string
		for _, x := range fins {
			if x != f {
				out = append(out, x)
			}
		}
		fins = out
	}
	switch policy {
	case "Foreground":
		addFin(metav1.FinalizerDeleteDependents)
		dropFin(metav1.FinalizerOrphanDependents)
	case "Orphan":
		addFin(metav1.FinalizerOrphanDependents)
		dropFin(metav1.FinalizerDeleteDependents)
	case "Background":
		dropFin(metav1.FinalizerOrphanDependents)
		dropFin(metav1.FinalizerDeleteDependents)
	}
	if len(fins) > 0 {
		fl := make([]any, len(fins))
		for i, f := range fins {
			fl[i] = f
		}
		m["finalizers"] = fl
		if _, already := m["deletionTimestamp"]; already && jsonEqual(obj, old) {
			return CopyMap(old), false, nil
		}
		if _, already := m["deletionTimestamp"]; !already {
			m["deletionTimestamp"] = s.Now
			m["deletionGracePeriodSeconds"] = int64(0)
			if !d.NoGeneration {
				g, _ := toFloat(m["generation"])
				m["generation"] = int64(g) + 1
			}
		}
		m["resourceVersion"] = s.nextRV()
		s.objs[key] = obj
		s.emit(d, "MODIFIED", obj)
		return CopyMap(obj), false, nil
	}
	delete(m, "finalizers")
	m["resourceVersion"] = s.nextRV()
	delete(s.objs, key)
	s.emit(d, "DELETED", obj)
	return CopyMap(obj), true, nil
}

func (s *Server) list(d *ResourceDef, ns string, sel labels.Selector) []map[string]any {
	var keys []string
	for k := range s.objs {
		if strings.HasPrefix(k, d.Group+"/"+d.Resource+"|") {
			keys = append(keys, k)
		}
	}
	sort.Strings(keys)
	var out []map[string]any
	for _, k := range keys {
		o := s.objs[k]
		if ns != "" && nsOf(o) != ns {
			continue
		}
		if sel != nil && !sel.Empty() {
			lbl, _, _ := unstructured.NestedStringMap(o, "metadata", "labels")
			if !sel.Matches(labels.Set(lbl)) {
				continue
			}
		}
		out = append(out, CopyMap(o))
	}
	return out
}

// ---- server-side apply -------------------------------------------------------------

type nopConv struct{}

func (nopConv) Convert(in, out, context interface{}) error { return fmt.Errorf("not supported") }
func (nopConv) ConvertToVersion(in runtime.Object, gv runtime.GroupVersioner) (runtime.Object, error) {
	return in, nil
}
func (nopConv) ConvertFieldLabel(gvk schema.GroupVersionKind, label, value string) (string, string, error) {
	return label, value, nil
}

type nopDefaulter struct{}

func (nopDefaulter) Default(in runtime.Object) {}

type unstructuredCreater struct{}

func (unstructuredCreater) New(kind schema.GroupVersionKind) (runtime.Object, error) {
	u := &unstructured.Unstructured{}
	u.SetGroupVersionKind(kind)
	return u, nil
}

func (s *Server) fieldManager(d *ResourceDef) (*managedfields.FieldManager, error) {
	if fm, ok := s.fms[d.GVK()]; ok {
		return fm, nil
	}
	fm, err := managedfields.NewDefaultCRDFieldManager(managedfields.NewDeducedTypeConverter(), nopConv{}, nopDefaulter{}, unstructuredCreater{}, d.GVK(), d.GVK().GroupVersion(), "", nil)
	if err != nil {
		return nil, err
	}
	s.fms[d.GVK()] = fm
	return fm, nil
}

func (s *Server) apply(d *ResourceDef, ns, name string, patch []byte, manager string, force bool) (map[string]any, bool, *apiErr) {
	if manager == "" {
		return nil, false, errBadRequest("PatchOptions.meta.k8s.io \"\" is invalid: fieldManager: Required value: is required for apply patch")
	}
	applied := map[string]any{}
	if err := yaml.Unmarshal(patch, &applied); err != nil {
		return nil, false, errBadRequest("error decoding YAML: " + err.Error())
	}
	normalizeNumbers(applied)
	am := metaOf(applied)
	if bn, _ := am["name"].(string); bn != "" && bn != name {
		return nil, false, errBadRequest("name in the applied object does not match the URL")
	}
	if _, ok := am["managedFields"]; ok {
		return nil, false, errBadRequest("metadata.managedFields must be nil")
	}
	if av, _ := applied["apiVersion"].(string); av != d.APIVersion() {
		return nil, false, errBadRequest(fmt.Sprintf("apiVersion %q in the applied object does not match %q", av, d.APIVersion()))
	}
	if k, _ := applied["kind"].(string); k != d.Kind {
		return nil, false, errBadRequest(fmt.Sprintf("kind %q in the applied object does not match %q", k, d.Kind))
	}
	fm, err := s.fieldManager(d)
	if err != nil {
		return nil, false, &apiErr{500, metav1.StatusReasonInternalError, err.Error(), nil}
	}
	key := okey(d, ns, name)
	old, exists := s.objs[key]
	var live *unstructured.Unstructured
	if exists {
		live = &unstructured.Unstructured{Object: CopyMap(old)}
	} else {
		live = &unstructured.Unstructured{Object: map[string]any{"apiVersion": d.APIVersion(), "kind": d.Kind}}
	}
	res, aerr := fm.Apply(live, &unstructured.Unstructured{Object: applied}, manager, force)
	if aerr != nil {
		if se, ok := aerr.(interface{ Status() metav1.Status }); ok {
			st := se.Status()
			return nil, false, &apiErr{int(st.Code), st.Reason, st.Message, nil}
		}
		return nil, false, &apiErr{500, metav1.StatusReasonInternalError, aerr.Error(), nil}
	}
	out := res.(*unstructured.Unstructured).Object
	normalizeNumbers(out)
	if !exists {
		metaOf(out)["name"] = name
		o, e := s.create(d, ns, out)
		return o, true, e
	}
	// go through the ordinary update path, without optimistic locking unless the patch carried an rv
	m := metaOf(out)
	if rv, _ := am["resourceVersion"].(string); rv == "" {
		m["resourceVersion"] = rvOf(old)
	}
	o, e := s.update(d, ns, name, "", out, false)
	return o, false, e
}

// trackUpdate records managed fields for a non-apply write when enabled.
func (s *Server) trackUpdate(d *ResourceDef, old, in map[string]any, manager string) map[string]any {
	if !s.TrackManagedFields {
		return in
	}
	fm, err := s.fieldManager(d)
	if err != nil {
		return in
	}
	if manager == "" {
		manager = "unknown"
	}
	var live *unstructured.Unstructured
	if old != nil {
		live = &unstructured.Unstructured{Object: CopyMap(old)}
	} else {
		live = &unstructured.Unstructured{Object: map[string]any{"apiVersion": d.APIVersion(), "kind": d.Kind}}
	}
	c := CopyMap(in)
	c["apiVersion"] = d.APIVersion()
	c["kind"] = d.Kind
	res := fm.UpdateNoErrors(live, &unstructured.Unstructured{Object: c}, manager)
	out := res.(*unstructured.Unstructured).Object
	normalizeNumbers(out)
	return out
}

// normalizeNumbers turns float64 values that are integral into int64, the
// way the k8s JSON decoder would have produced them.
func normalizeNumbers(v any) any {
	switch t := v.(type) {
	case map[string]any:
		for k, x := range t {
			t[k] = normalizeNumbers(x)
		}
		return t
	case []any:
		for i, x := range t {
			t[i] = normalizeNumbers(x)
		}
		return t
	case float64:
		if t == float64(int64(t)) && t < 1e15 && t > -1e15 {
			return int64(t)
		}
		return t
	case int:
		return int64(t)
	default:
		return v
	}
}

// DecodeJSON decodes like client-go does for unstructured (int64 / float64).
func DecodeJSON(b []byte) (map[string]any, error) {
	var m map[string]any
	dec := json.NewDecoder(bytes.NewReader(b))
	dec.UseNumber()
	if err := dec.Decode(&m); err != nil {
		return nil, err
	}
	return convertNumbers(m).(map[string]any), nil
}

func convertNumbers(v any) any {
	switch t := v.(type) {
	case map[string]any:
		for k, x := range t {
			t[k] = convertNumbers(x)
		}
		return t
	case []any:
		for i, x := range t {
			t[i] = convertNumbers(x)
		}
		return t
	case json.Number:
		if i, err := strconv.ParseInt(string(t), 10, 64); err == nil {
			return i
		}
		f, _ := t.Float64()
		return f
	default:
		return v
	}
}

// ---- HTTP layer -------------------------------------------------------------------

type parsedPath struct {
	discovery   string // "api", "apis", "groupversion"
	group, ver  string
	def         *ResourceDef
	ns, name    string
	subresource string
}

func (s *Server) parsePath(p string) (*parsedPath, bool) {
	parts := strings.Split(strings.Trim(p, "/"), "/")
	pp := &parsedPath{}
	var rest []string
	switch {
	case len(parts) == 1 && parts[0] == "api":
		pp.discovery = "api"
		return pp, true
	case len(parts) == 1 && parts[0] == "apis":
		pp.discovery = "apis"
		return pp, true
	case parts[0] == "api" && len(parts) >= 2:
		pp.group, pp.ver = "", parts[1]
		rest = parts[2:]
	case parts[0] == "apis" && len(parts) == 2:
		pp.discovery = "group"
		pp.group = parts[1]
		return pp, true
	case parts[0] == "apis" && len(parts) >= 3:
		pp.group, pp.ver = parts[1], parts[2]
		rest = parts[3:]
	default:
		return nil, false
	}
	if len(rest) == 0 {
		pp.discovery = "groupversion"
		return pp, true
	}
	if rest[0] == "namespaces" && len(rest) >= 3 {
		pp.ns = rest[1]
		rest = rest[2:]
	}
	d := s.byGVR[schema.GroupVersionResource{Group: pp.group, Version: pp.ver, Resource: rest[0]}]
	if d == nil {
		return nil, false
	}
	pp.def = d
	if len(rest) > 1 {
		pp.name = rest[1]
	}
	if len(rest) > 2 {
		pp.subresource = rest[2]
	}
	return pp, true
}

func jsonResponse(req *http.Request, code int, v any) *http.Response {
	b, _ := json.Marshal(v)
	return &http.Response{StatusCode: code, Status: fmt.Sprintf("%d %s", code, http.StatusText(code)), Proto: "HTTP/1.1", ProtoMajor: 1, ProtoMinor: 1,
		Header: http.Header{"Content-Type": []string{"application/json"}}, Body: io.NopCloser(bytes.NewReader(b)), ContentLength: int64(len(b)), Request: req}
}

func (s *Server) isHidden(d *ResourceDef) bool {
	s.mu.Lock()
	defer s.mu.Unlock()
	return d.Hidden
}

// SetHidden hides a resource from discovery or reveals it.
func (s *Server) SetHidden(resource string, hidden bool) {
	s.mu.Lock()
	defer s.mu.Unlock()
	for _, d := range s.defs {
		if d.Resource == resource {
			d.Hidden = hidden
		}
	}
}

// SetHasStatus switches the status subresource of a resource on or off (a CRD that gains
// `subresources.status` later); discovery and request handling follow at once.
func (s *Server) SetHasStatus(resource string, on bool) {
	s.mu.Lock()
	defer s.mu.Unlock()
	for _, d := range s.defs {
		if d.Resource == resource {
			d.HasStatus = on
		}
	}
}

func (s *Server) discoveryResponse(req *http.Request, pp *parsedPath) *http.Response {
	switch pp.discovery {
	case "api":
		return jsonResponse(req, 200, map[string]any{"kind": "APIVersions", "versions": []string{"v1"}, "serverAddressByClientCIDRs": []any{}})
	case "apis":
		groups := map[string][]string{}
		for _, d := range s.defs {
			if d.Group == "" || s.isHidden(d) {
				continue
			}
			found := false
			for _, v := range groups[d.Group] {
				if v == d.Version {
					found = true
				}
			}
			if !found {
				groups[d.Group] = append(groups[d.Group], d.Version)
			}
		}
		var names []string
		for g := range groups {
			names = append(names, g)
		}
		sort.Strings(names)
		var gl []any
		for _, g := range names {
			var vs []any
			for _, v := range groups[g] {
				vs = append(vs, map[string]any{"groupVersion": g + "/" + v, "version": v})
			}
			gl = append(gl, map[string]any{"name": g, "versions": vs, "preferredVersion": vs[0]})
		}
		return jsonResponse(req, 200, map[string]any{"kind": "APIGroupList", "apiVersion": "v1", "groups": gl})
	case "groupversion":
		gv := pp.ver
		if pp.group != "" {
			gv = pp.group + "/" + pp.ver
		}
		var rs []any
		for _, d := range s.defs {
			if d.Group != pp.group || d.Version != pp.ver || s.isHidden(d) {
				continue
			}
			verbs := []string{"create", "delete", "deletecollection", "get", "list", "patch", "update", "watch"}
			main := map[string]any{"name": d.Resource, "singularName": strings.ToLower(d.Kind), "namespaced": d.Namespaced, "kind": d.Kind, "verbs": verbs}
			if d.HasStatus {
				sub := map[string]any{"name": d.Resource + "/status", "singularName": "", "namespaced": d.Namespaced, "kind": d.Kind, "verbs": []string{"get", "patch", "update"}}
				if s.SubresourcesFirst {
					// a legal, if unusual, order of a discovery document
					rs = append(rs, sub, main)
				} else {
					rs = append(rs, main, sub)
				}
			} else {
				rs = append(rs, main)
			}
		}
		if len(rs) == 0 {
			return jsonResponse(req, 404, (&apiErr{404, metav1.StatusReasonNotFound, "not found", nil}).status(nil, ""))
		}
		return jsonResponse(req, 200, map[string]any{"kind": "APIResourceList", "apiVersion": "v1", "groupVersion": gv, "resources": rs})
	}
	return jsonResponse(req, 404, (&apiErr{404, metav1.StatusReasonNotFound, "not found", nil}).status(nil, ""))
}

// RoundTrip serves one request from the in-memory store.
func (s *Server) RoundTrip(req *http.Request) (*http.Response, error) {
	if s.Dead {
		s.mu.Lock()
		s.seq++
		s.Log = append(s.Log, &Request{Seq: s.seq, Epoch: s.Epoch, Actor: "controller", Verb: strings.ToLower(req.Method), Def: &ResourceDef{Resource: req.URL.Path}, Code: 0, Reason: "dead", Dropped: true})
		s.mu.Unlock()
		return nil, fmt.Errorf("verifsim: connection refused (process is dead)")
	}
	pp, ok := s.parsePath(req.URL.Path)
	if !ok {
		return jsonResponse(req, 404, (&apiErr{404, metav1.StatusReasonNotFound, "the server could not find the requested resource", nil}).status(nil, "")), nil
	}
	if pp.discovery != "" {
		return s.discoveryResponse(req, pp), nil
	}
	var raw []byte
	if req.Body != nil {
		raw, _ = io.ReadAll(req.Body)
		req.Body.Close()
	}
	q := req.URL.Query()
	r := &Request{Actor: "controller", Def: pp.def, Namespace: pp.ns, Name: pp.name, Subresource: pp.subresource, Query: q, Raw: raw}
	switch req.Method {
	case "GET":
		switch {
		case pp.name != "":
			r.Verb = "get"
		case q.Get("watch") == "true" || q.Get("watch") == "1":
			r.Verb = "watch"
		default:
			r.Verb = "list"
		}
	case "POST":
		r.Verb = "create"
	case "PUT":
		r.Verb = "update"
	case "PATCH":
		r.Verb = "patch"
		r.PatchType = req.Header.Get("Content-Type")
	case "DELETE":
		r.Verb = "delete"
	default:
		return jsonResponse(req, 405, (&apiErr{405, metav1.StatusReasonMethodNotAllowed, "method not allowed", nil}).status(nil, "")), nil
	}
	if len(raw) > 0 && r.PatchType != "application/json-patch+json" {
		if r.PatchType == "application/apply-patch+yaml" {
			b := map[string]any{}
			if yaml.Unmarshal(raw, &b) == nil {
				normalizeNumbers(b)
				r.Body = b
			}
		} else if b, err := DecodeJSON(raw); err == nil {
			r.Body = b
		}
	}
	if r.Verb == "watch" {
		return s.serveWatch(req, r)
	}

	// fault / interposer hook, outside the store lock
	var fault *Fault
	if s.Before != nil {
		s.mu.Lock()
		s.seq++
		r.Seq = s.seq
		r.Epoch = s.Epoch
		s.mu.Unlock()
		fault = s.Before(r)
	} else {
		s.mu.Lock()
		s.seq++
		r.Seq = s.seq
		r.Epoch = s.Epoch
		s.mu.Unlock()
	}
	if fault != nil && !fault.AfterCommit {
		r.Injected = true
		s.mu.Lock()
		if cur, ok := s.objs[okey(pp.def, pp.ns, pp.name)]; ok {
			r.Pre = CopyMap(cur)
			r.Post = CopyMap(cur)
		}
		s.Log = append(s.Log, r)
		s.mu.Unlock()
		if fault.Transport != nil {
			r.Code, r.Reason = 0, "transport"
			return nil, fault.Transport
		}
		e := &apiErr{fault.Code, fault.Reason, fault.Message, nil}
		if e.message == "" {
			e.message = fmt.Sprintf("injected fault %d %s", fault.Code, fault.Reason)
		}
		r.Code, r.Reason, r.Message = e.code, string(e.reason), e.message
		return jsonResponse(req, e.code, e.status(pp.def, pp.name)), nil
	}

	s.mu.Lock()
	body, code, aerr := s.serveLocked(r)
	s.Log = append(s.Log, r)
	s.mu.Unlock()

	if fault != nil && fault.AfterCommit {
		r.Injected = true
		if fault.Transport != nil {
			return nil, fault.Transport
		}
		e := &apiErr{fault.Code, fault.Reason, fault.Message, nil}
		return jsonResponse(req, e.code, e.status(pp.def, pp.name)), nil
	}
	if aerr != nil {
		return jsonResponse(req, aerr.code, aerr.status(pp.def, pp.name)), nil
	}
	return jsonResponse(req, code, body), nil
}

// serveLocked executes a parsed request against the store.
func (s *Server) serveLocked(r *Request) (any, int, *apiErr) {
	d := r.Def
	ns := r.Namespace
	if !d.Namespaced {
		ns = ""
	}
	finish := func(obj map[string]any, code int, e *apiErr) (any, int, *apiErr) {
		if e != nil {
			r.Code, r.Reason, r.Message = e.code, string(e.reason), e.message
			if cur, ok := s.objs[okey(d, ns, r.Name)]; ok {
				r.Post = CopyMap(cur)
			}
			return nil, 0, e
		}
		r.Code = code
		return present(d, obj), code, nil
	}
	if r.Name != "" {
		if cur, ok := s.objs[okey(d, ns, r.Name)]; ok {
			r.Pre = CopyMap(cur)
		}
	}
	switch r.Verb {
	case "get":
		if r.Subresource != "" && !(r.Subresource == "status" && d.HasStatus) {
			return finish(nil, 0, errNotFound(d, r.Name))
		}
		o, ok := s.objs[okey(d, ns, r.Name)]
		if !ok {
			return finish(nil, 0, errNotFound(d, r.Name))
		}
		r.Post = r.Pre
		return finish(CopyMap(o), 200, nil)
	case "list":
		s.ListCalls[d.Resource]++
		var sel labels.Selector
		if ls := r.Query.Get("labelSelector"); ls != "" {
			var err error
			sel, err = labels.Parse(ls)
			if err != nil {
				return finish(nil, 0, errBadRequest(err.Error()))
			}
		}
		items := s.list(d, ns, sel)
		arr := make([]any, len(items))
		for i, it := range items {
			arr[i] = present(d, it)
		}
		r.Code = 200
		return map[string]any{"apiVersion": d.APIVersion(), "kind": d.Kind + "List", "metadata": map[string]any{"resourceVersion": strconv.FormatInt(s.rv, 10)}, "items": arr}, 200, nil
	case "create":
		if r.Body == nil {
			return finish(nil, 0, errBadRequest("no body"))
		}
		if r.Name != "" {
			return finish(nil, 0, &apiErr{405, metav1.StatusReasonMethodNotAllowed, "create on a named resource", nil})
		}
		in := r.Body
		if s.TrackManagedFields {
			in = s.trackUpdate(d, nil, in, r.Query.Get("fieldManager"))
		}
		o, e := s.create(d, ns, in)
		if e == nil {
			r.Name = nameOf(o)
			r.Post = CopyMap(o)
		} else {
			r.Name = nameOf(r.Body)
			if cur, ok := s.objs[okey(d, ns, r.Name)]; ok {
				r.Pre = CopyMap(cur)
			}
		}
		return finish(o, 201, e)
	case "update":
		if r.Body == nil {
			return finish(nil, 0, errBadRequest("no body"))
		}
		if r.Subresource != "" && !(r.Subresource == "status" && d.HasStatus) {
			return finish(nil, 0, errNotFound(d, r.Name))
		}
		in := r.Body
		if s.TrackManagedFields && r.Pre != nil && r.Subresource == "" {
			in = s.trackUpdate(d, r.Pre, in, r.Query.Get("fieldManager"))
		}
		o, e := s.update(d, ns, r.Name, r.Subresource, in, true)
		if e == nil {
			if cur, ok := s.objs[okey(d, ns, r.Name)]; ok {
				r.Post = CopyMap(cur)
			}
		}
		return finish(o, 200, e)
	case "patch":
		if r.Subresource != "" && !(r.Subresource == "status" && d.HasStatus) {
			return finish(nil, 0, errNotFound(d, r.Name))
		}
		switch r.PatchType {
		case "application/apply-patch+yaml":
			force := r.Query.Get("force") == "true"
			o, created, e := s.apply(d, ns, r.Name, r.Raw, r.Query.Get("fieldManager"), force)
			if e == nil {
				r.Post = CopyMap(o)
			}
			code := 200
			if created {
				code = 201
			}
			return finish(o, code, e)
		case "application/json-patch+json", "application/merge-patch+json":
			old, ok := s.objs[okey(d, ns, r.Name)]
			if !ok {
				return finish(nil, 0, errNotFound(d, r.Name))
			}
			oldJSON, _ := json.Marshal(old)
			var newJSON []byte
			var err error
			if r.PatchType == "application/json-patch+json" {
				var p jsonpatch.Patch
				p, err = jsonpatch.DecodePatch(r.Raw)
				if err == nil {
					newJSON, err = p.Apply(oldJSON)
				}
			} else {
				newJSON, err = jsonpatch.MergePatch(oldJSON, r.Raw)
			}
			if err != nil {
				return finish(nil, 0, &apiErr{422, metav1.StatusReasonInvalid, "the server rejected our request due to an error in our request: " + err.Error(), nil})
			}
			in, err := DecodeJSON(newJSON)
			if err != nil {
				return finish(nil, 0, errBadRequest(err.Error()))
			}
			if s.TrackManagedFields && r.Subresource == "" {
				in = s.trackUpdate(d, old, in, r.Query.Get("fieldManager"))
			}
			o, e := s.update(d, ns, r.Name, r.Subresource, in, false)
			if e == nil {
				if cur, ok := s.objs[okey(d, ns, r.Name)]; ok {
					r.Post = CopyMap(cur)
				}
			}
			return finish(o, 200, e)
		default:
			return finish(nil, 0, &apiErr{415, metav1.StatusReasonUnsupportedMediaType, "unsupported patch type " + r.PatchType, nil})
		}
	case "delete":
		if r.Name == "" {
			return finish(nil, 0, &apiErr{405, metav1.StatusReasonMethodNotAllowed, "deletecollection not supported", nil})
		}
		opts := r.Body
		if opts == nil {
			opts = map[string]any{}
		}
		if pp := r.Query.Get("propagationPolicy"); pp != "" {
			opts["propagationPolicy"] = pp
		}
		o, gone, e := s.delete(d, ns, r.Name, opts)
		if e != nil {
			return finish(nil, 0, e)
		}
		if gone {
			r.Post = nil
			r.Code = 200
			return map[string]any{"kind": "Status", "apiVersion": "v1", "metadata": map[string]any{}, "status": "Success",
				"details": map[string]any{"name": r.Name, "group": d.Group, "kind": d.Resource, "uid": uidOf(o)}}, 200, nil
		}
		r.Post = CopyMap(o)
		return finish(o, 200, nil)
	}
	return finish(nil, 0, errBadRequest("unsupported"))
}

// ---- watch ---------------------------------------------------------------------------

func (s *Server) serveWatch(req *http.Request, r *Request) (*http.Response, error) {
	d := r.Def
	ns := r.Namespace
	if !d.Namespaced {
		ns = ""
	}
	s.mu.Lock()
	s.WatchCalls[d.Resource]++
	var from int64
	if v := r.Query.Get("resourceVersion"); v != "" {
		from, _ = strconv.ParseInt(v, 10, 64)
	}
	if from > 0 && from < s.minWatchRV[d.Group+"/"+d.Resource] {
		// the history a reconnecting watcher asks for has been compacted away
		s.mu.Unlock()
		e := &apiErr{410, metav1.StatusReasonExpired, fmt.Sprintf("too old resource version: %d (%d)", from, s.minWatchRV[d.Group+"/"+d.Resource]), nil}
		return jsonResponse(req, 410, e.status(d, "")), nil
	}
	sub := &watchSub{def: d, ns: ns, ch: make(chan simEvent, 4096), kill: make(chan struct{})}
	s.subN++
	id := s.subN
	// replay history after 'from'
	var backlog []simEvent
	for _, ev := range s.events {
		if sameStore(ev.def, d) && ev.rv > from && (ns == "" || ev.ns == ns) {
			backlog = append(backlog, ev)
		}
	}
	s.subs[id] = sub
	s.mu.Unlock()

	pr, pw := io.Pipe()
	ctx := req.Context()
	body := &watchBody{PipeReader: pr, closed: make(chan struct{})}
	go func() {
		defer func() {
			s.mu.Lock()
			sub.closed = true
			delete(s.subs, id)
			s.mu.Unlock()
			pw.Close()
		}()
		write := func(ev simEvent) bool {
			b, _ := json.Marshal(map[string]any{"type": ev.typ, "object": present(d, CopyMap(ev.obj))})
			b = append(b, '\n')
			_, err := pw.Write(b)
			return err == nil
		}
		for _, ev := range backlog {
			if !write(ev) {
				return
			}
		}
		for {
			select {
			case <-ctx.Done():
				return
			case <-body.closed:
				return
			case <-sub.kill:
				return
			case ev := <-sub.ch:
				if !write(ev) {
					return
				}
			}
		}
	}()
	go func() {
		select {
		case <-ctx.Done():
			pr.CloseWithError(ctx.Err())
		case <-body.closed:
		}
	}()
	return &http.Response{StatusCode: 200, Status: "200 OK", Proto: "HTTP/1.1", ProtoMajor: 1, ProtoMinor: 1,
		Header: http.Header{"Content-Type": []string{"application/json"}, "Transfer-Encoding": []string{"chunked"}}, Body: body, ContentLength: -1, Request: req}, nil
}

// watchBody notices when the client closes the stream (a stopped reflector).
type watchBody struct {
	*io.PipeReader
	once   sync.Once
	closed chan struct{}
}

func (w *watchBody) Close() error {
	w.once.Do(func() { close(w.closed) })
	return w.PipeReader.Close()
}

// ExpireWatches drops every open watch connection on a resource and compacts its history: a watcher that
// reconnects with the resource version it last saw is answered 410 Gone and has to list again. Whatever
// happens to the objects while nobody watches is only discovered through that list.
func (s *Server) ExpireWatches(resource string) {
	s.mu.Lock()
	defer s.mu.Unlock()
	for _, sub := range s.subs {
		if sub.def.Resource == resource && !sub.closed {
			sub.closed = true
			close(sub.kill)
		}
	}
}

// CompactHistory makes every resource version handed out so far too old to watch from.
func (s *Server) CompactHistory(resource string) {
	s.mu.Lock()
	defer s.mu.Unlock()
	if s.minWatchRV == nil {
		s.minWatchRV = map[string]int64{}
	}
	d := s.Def(resource)
	s.rv++
	s.minWatchRV[d.Group+"/"+d.Resource] = s.rv
}

// OpenWatches returns the number of open watch streams per resource.
func (s *Server) OpenWatches() map[string]int {
	s.mu.Lock()
	defer s.mu.Unlock()
	out := map[string]int{}
	for _, sub := range s.subs {
		if !sub.closed {
			out[sub.def.Resource]++
		}
	}
	return out
}

// OpenWatchesByVersion is OpenWatches keyed "resource.apiVersion".
func (s *Server) OpenWatchesByVersion() map[string]int {
	s.mu.Lock()
	defer s.mu.Unlock()
	out := map[string]int{}
	for _, sub := range s.subs {
		if !sub.closed {
			out[sub.def.Resource+"."+sub.def.APIVersion()]++
		}
	}
	return out
}

// ---- direct (outside-writer / harness) access --------------------------------------

// Get returns a copy of a stored object (nil if absent).
func (s *Server) Get(resource, ns, name string) map[string]any {
	s.mu.Lock()
	defer s.mu.Unlock()
	d := s.Def(resource)
	if !d.Namespaced {
		ns = ""
	}
	return CopyMap(s.objs[okey(d, ns, name)])
}

// ListAll returns copies of all objects of a resource (sorted by key).
func (s *Server) ListAll(resource string) []map[string]any {
	s.mu.Lock()
	defer s.mu.Unlock()
	return s.list(s.Def(resource), "", nil)
}

// ExtCreate creates an object as an outside writer.
func (s *Server) ExtCreate(resource string, obj map[string]any) (map[string]any, error) {
	s.mu.Lock()
	defer s.mu.Unlock()
	d := s.Def(resource)
	in := obj
	if s.TrackManagedFields {
		in = s.trackUpdate(d, nil, in, "outside-writer")
	}
	o, e := s.create(d, nsOf(obj), in)
	if e != nil {
		return nil, fmt.Errorf("%s", e.message)
	}
	return o, nil
}

// ExtUpdate applies f to the stored object as an outside writer (main resource
// and status together, like a privileged writer). Returns false if absent.
func (s *Server) ExtUpdate(resource, ns, name string, f func(obj map[string]any)) (map[string]any, error) {
	s.mu.Lock()
	defer s.mu.Unlock()
	d := s.Def(resource)
	if !d.Namespaced {
		ns = ""
	}
	old, ok := s.objs[okey(d, ns, name)]
	if !ok {
		return nil, fmt.Errorf("not found")
	}
	c := CopyMap(old)
	f(c)
	// status first (if changed), then the rest
	if d.HasStatus && !jsonEqual(c["status"], old["status"]) {
		if _, e := s.update(d, ns, name, "status", c, false); e != nil {
			return nil, fmt.Errorf("%s", e.message)
		}
		cur := s.objs[okey(d, ns, name)]
		if cur == nil {
			return nil, nil
		}
		metaOf(c)["resourceVersion"] = rvOf(cur)
	} else {
		metaOf(c)["resourceVersion"] = rvOf(old)
	}
	in := c
	if s.TrackManagedFields {
		in = s.trackUpdate(d, s.objs[okey(d, ns, name)], in, "outside-writer")
	}
	o, e := s.update(d, ns, name, "", in, false)
	if e != nil {
		return nil, fmt.Errorf("%s", e.message)
	}
	return o, nil
}

// ExtDelete deletes as an outside writer with the given propagation policy
// ("" = plain delete honouring finalizers).
func (s *Server) ExtDelete(resource, ns, name, policy string) error {
	s.mu.Lock()
	defer s.mu.Unlock()
	d := s.Def(resource)
	if !d.Namespaced {
		ns = ""
	}
	opts := map[string]any{}
	if policy != "" {
		opts["propagationPolicy"] = policy
	}
	_, _, e := s.delete(d, ns, name, opts)
	if e != nil {
		return fmt.Errorf("%s", e.message)
	}
	return nil
}

// Purge removes an object regardless of finalizers (harness clean-up).
func (s *Server) Purge(resource, ns, name string) {
	s.mu.Lock()
	defer s.mu.Unlock()
	d := s.Def(resource)
	if !d.Namespaced {
		ns = ""
	}
	key := okey(d, ns, name)
	if o, ok := s.objs[key]; ok {
		metaOf(o)["resourceVersion"] = s.nextRV()
		delete(s.objs, key)
		s.emit(d, "DELETED", o)
	}
}

// RV returns the current global resourceVersion.
func (s *Server) RV() int64 {
	s.mu.Lock()
	defer s.mu.Unlock()
	return s.rv
}

// Snapshot returns a deep copy of the whole store keyed by "resource|ns|name".
func (s *Server) Snapshot() map[string]map[string]any {
	s.mu.Lock()
	defer s.mu.Unlock()
	out := make(map[string]map[string]any, len(s.objs))
	for k, v := range s.objs {
		out[k] = CopyMap(v)
	}
	return out
}

// LogSince returns the requests with Seq > seq.
func (s *Server) LogSince(seq int) []*Request {
	s.mu.Lock()
	defer s.mu.Unlock()
	var out []*Request
	for _, r := range s.Log {
		if r.Seq > seq {
			out = append(out, r)
		}
	}
	return out
}

// Seq returns the sequence number of the last request.
func (s *Server) Seq() int {
	s.mu.Lock()
	defer s.mu.Unlock()
	return s.seq
}

// ListCallCount returns how many LIST requests a resource has served.
func (s *Server) ListCallCount(resource string) int {
	s.mu.Lock()
	defer s.mu.Unlock()
	return s.ListCalls[resource]
}
