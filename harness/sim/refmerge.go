package verifsim

import (
	"encoding/json"
	"fmt"
	"reflect"
	"sort"
)

// Reference implementation of metacontroller's documented three-way merge
// (docs/src/api/apply.md "Dynamic Apply" + property C05). Written
// functionally (never mutates, always builds new values) so that it shares no
// structure with pkg/dynamic/apply.

// Absent marks "no value at this position" (distinct from JSON null).
type absentT struct{}

var Absent = absentT{}

// Wild marks a position whose result the property does not pin down
// (desired null over an observed container).
type wildT struct{}

var Wild = wildT{}

var refMergeKeys = []string{"containerPort", "port", "mountPath", "name", "uid", "ip", "path"}

// RefResult is the outcome of the reference merge.
type RefResult struct {
	Value any
	// Clash: desired and observed disagree on container type at Path; the
	// property demands an error.
	Clash     bool
	ClashPath string
	// LastClash: lastApplied disagrees with observed on type somewhere on the
	// merge path; an error is acceptable (but not required).
	LastClash bool
	// Unspecified: duplicate or non-scalar list-map keys were met; only
	// no-panic / purity are checked.
	Unspecified bool
	// WildUsed: desired null met an observed container (result not pinned down,
	// idempotence not demanded there).
	WildUsed bool
	// Features seen, for non-triviality classification.
	ListMap, Removal, Reordered, Foreign bool
}

func isMap(v any) bool  { _, ok := v.(map[string]any); return ok }
func isList(v any) bool { _, ok := v.([]any); return ok }

// RefMerge computes the reference merge of three JSON objects.
func RefMerge(observed, lastApplied, desired map[string]any) *RefResult {
	r := &RefResult{}
	var l any = Absent
	if lastApplied != nil {
		l = lastApplied
	}
	var d any = map[string]any{}
	if desired != nil {
		d = desired
	}
	r.Value = r.merge("", observed, l, d)
	return r
}

func (r *RefResult) merge(path string, o, l, d any) any {
	switch dv := d.(type) {
	case map[string]any:
		switch ov := o.(type) {
		case map[string]any:
			lm, ok := l.(map[string]any)
			if !ok && l != Absent && l != nil {
				r.LastClash = true
			}
			return r.mergeMap(path, ov, lm, dv)
		case []any:
			r.clash(path)
			return nil
		default:
			return d
		}
	case []any:
		switch ov := o.(type) {
		case []any:
			ll, ok := l.([]any)
			if !ok && l != Absent && l != nil {
				r.LastClash = true
			}
			return r.mergeList(path, ov, ll, dv)
		case map[string]any:
			r.clash(path)
			return nil
		default:
			return d
		}
	default:
		// desired is a scalar or null
		if isMap(o) || isList(o) {
			if d == nil {
				r.WildUsed = true
				return Wild
			}
			r.clash(path)
			return nil
		}
		return d
	}
}

func (r *RefResult) clash(path string) {
	if !r.Clash {
		r.Clash = true
		r.ClashPath = path
	}
}

func (r *RefResult) mergeMap(path string, o, l, d map[string]any) any {
	out := make(map[string]any, len(o)+len(d))
	for k, v := range o {
		if _, inLast := l[k]; inLast {
			if _, inDes := d[k]; !inDes {
				r.Removal = true
				continue
			}
		}
		if _, inDes := d[k]; !inDes {
			if _, inLast := l[k]; !inLast {
				r.Foreign = true
			}
			out[k] = v
		}
	}
	for k, dv := range d {
		var ov any = Absent
		if v, ok := o[k]; ok {
			ov = v
		}
		var lv any = Absent
		if v, ok := l[k]; ok {
			lv = v
		}
		out[k] = r.merge(path+"["+k+"]", ov, lv, dv)
	}
	return out
}

func refKeyString(v any) (string, bool) {
	switch t := v.(type) {
	case string:
		return t, true
	case map[string]any, []any:
		return "", false
	default:
		return fmt.Sprintf("%v", v), true
	}
}

func refDetectKey(lists ...[]any) string {
	var common map[string]bool
	for _, list := range lists {
		for _, it := range list {
			m, ok := it.(map[string]any)
			if !ok {
				return ""
			}
			if common == nil {
				common = map[string]bool{}
				for k := range m {
					common[k] = true
				}
				continue
			}
			for k := range common {
				if _, ok := m[k]; !ok {
					delete(common, k)
				}
			}
		}
	}
	for _, k := range refMergeKeys {
		if common[k] {
			return k
		}
	}
	return ""
}

func (r *RefResult) index(key string, list []any) (map[string]any, []string) {
	m := map[string]any{}
	var order []string
	for _, it := range list {
		ks, ok := refKeyString(it.(map[string]any)[key])
		if !ok {
			r.Unspecified = true
		}
		if _, dup := m[ks]; dup {
			r.Unspecified = true
		}
		m[ks] = it
		order = append(order, ks)
	}
	return m, order
}

func (r *RefResult) mergeList(path string, o, l, d []any) any {
	key := refDetectKey(o, l, d)
	if key == "" {
		return d
	}
	r.ListMap = true
	om, oorder := r.index(key, o)
	lm, _ := r.index(key, l)
	dm, dorder := r.index(key, d)
	if r.Unspecified {
		return Wild
	}
	// detect "reordered": desired lists shared keys in another order than observed
	var sharedO, sharedD []string
	for _, k := range oorder {
		if _, ok := dm[k]; ok {
			sharedO = append(sharedO, k)
		}
	}
	for _, k := range dorder {
		if _, ok := om[k]; ok {
			sharedD = append(sharedD, k)
		}
	}
	if !reflect.DeepEqual(sharedO, sharedD) {
		r.Reordered = true
	}
	out := []any{}
	for _, k := range oorder {
		ov := om[k]
		dv, inDes := dm[k]
		lv, inLast := lm[k]
		switch {
		case inDes:
			var lvv any = Absent
			if inLast {
				lvv = lv
			}
			out = append(out, r.merge(path+"["+k+"]", ov, lvv, dv))
		case inLast:
			r.Removal = true
		default:
			r.Foreign = true
			out = append(out, ov)
		}
	}
	for _, k := range dorder {
		if _, inObs := om[k]; !inObs {
			out = append(out, dm[k])
		}
	}
	return out
}

// RefEqual compares an implementation result with a reference value that may
// contain Wild positions. Numbers are compared by value (int64 vs float64 as
// decoded by the k8s JSON decoder are both possible).
func RefEqual(got, want any) (bool, string) {
	return refEq("", got, want)
}

func refEq(path string, got, want any) (bool, string) {
	if want == Wild {
		return true, ""
	}
	switch w := want.(type) {
	case map[string]any:
		g, ok := got.(map[string]any)
		if !ok {
			return false, fmt.Sprintf("%s: got %T, want map", path, got)
		}
		keys := map[string]bool{}
		for k := range w {
			keys[k] = true
		}
		for k := range g {
			keys[k] = true
		}
		ks := make([]string, 0, len(keys))
		for k := range keys {
			ks = append(ks, k)
		}
		sort.Strings(ks)
		for _, k := range ks {
			gv, gok := g[k]
			wv, wok := w[k]
			if !wok {
				return false, fmt.Sprintf("%s[%s]: unexpected key (value %v)", path, k, gv)
			}
			if !gok {
				if wv == Wild {
					continue
				}
				return false, fmt.Sprintf("%s[%s]: missing key (want %v)", path, k, wv)
			}
			if ok, why := refEq(path+"["+k+"]", gv, wv); !ok {
				return false, why
			}
		}
		return true, ""
	case []any:
		g, ok := got.([]any)
		if !ok {
			return false, fmt.Sprintf("%s: got %T, want list", path, got)
		}
		if len(g) != len(w) {
			return false, fmt.Sprintf("%s: list length %d, want %d (got %v want %v)", path, len(g), len(w), g, w)
		}
		for i := range w {
			if ok, why := refEq(fmt.Sprintf("%s[%d]", path, i), g[i], w[i]); !ok {
				return false, why
			}
		}
		return true, ""
	default:
		if !scalarEq(got, want) {
			return false, fmt.Sprintf("%s: got %#v, want %#v", path, got, want)
		}
		return true, ""
	}
}

func scalarEq(a, b any) bool {
	if a == nil || b == nil {
		return a == nil && b == nil
	}
	if isMap(a) || isList(a) || isMap(b) || isList(b) {
		return false
	}
	af, aok := toFloat(a)
	bf, bok := toFloat(b)
	if aok && bok {
		return af == bf
	}
	if aok != bok {
		return false
	}
	return reflect.DeepEqual(a, b)
}

func toFloat(v any) (float64, bool) {
	switch t := v.(type) {
	case int:
		return float64(t), true
	case int64:
		return float64(t), true
	case int32:
		return float64(t), true
	case float64:
		return t, true
	case float32:
		return float64(t), true
	}
	return 0, false
}

// DeepCopyAny copies a JSON-like value (maps, slices, scalars).
func DeepCopyAny(v any) any {
	switch t := v.(type) {
	case map[string]any:
		out := make(map[string]any, len(t))
		for k, x := range t {
			out[k] = DeepCopyAny(x)
		}
		return out
	case []any:
		out := make([]any, len(t))
		for i, x := range t {
			out[i] = DeepCopyAny(x)
		}
		return out
	default:
		return v
	}
}

// CopyMap deep-copies a JSON object (nil stays nil).
func CopyMap(m map[string]any) map[string]any {
	if m == nil {
		return nil
	}
	return DeepCopyAny(m).(map[string]any)
}

// LastAppliedAnnotation is metacontroller's record of the last desired state.
const LastAppliedAnnotation = "metacontroller.k8s.io/last-applied-configuration"

var refSysFields = []string{"selfLink", "uid", "resourceVersion", "generation", "creationTimestamp", "deletionTimestamp", "deletionGracePeriodSeconds"}

// RefApplyUpdate is the reference for the object-level apply: three-way merge
// of desired into observed using observed's last-applied record, system
// metadata and status exactly as observed, last-applied record := desired.
// ok=false means the reference cannot decide (clash, wild, unparsable record).
func RefApplyUpdate(observed, desired map[string]any) (result map[string]any, ok bool, clash bool) {
	var last map[string]any
	om, _ := observed["metadata"].(map[string]any)
	if ann, _ := om["annotations"].(map[string]any); ann != nil {
		if s, _ := ann[LastAppliedAnnotation].(string); s != "" {
			m, err := DecodeJSON([]byte(s))
			if err != nil {
				return nil, false, false
			}
			last = m
		}
	}
	d := CopyMap(desired)
	if dm, _ := d["metadata"].(map[string]any); dm != nil {
		if ann, _ := dm["annotations"].(map[string]any); ann != nil {
			if _, had := ann[LastAppliedAnnotation]; had {
				delete(ann, LastAppliedAnnotation)
				if len(ann) == 0 {
					delete(dm, "annotations")
				}
			}
		}
	}
	r := RefMerge(CopyMap(observed), last, CopyMap(d))
	if r.Clash {
		return nil, false, true
	}
	if r.Unspecified || r.WildUsed {
		return nil, false, false
	}
	out, isMap := r.Value.(map[string]any)
	if !isMap {
		return nil, false, false
	}
	m, _ := out["metadata"].(map[string]any)
	if m == nil {
		m = map[string]any{}
		out["metadata"] = m
	}
	for _, f := range refSysFields {
		if v, has := om[f]; has {
			m[f] = DeepCopyAny(v)
		} else {
			delete(m, f)
		}
	}
	if v, has := observed["status"]; has {
		out["status"] = DeepCopyAny(v)
	} else {
		delete(out, "status")
	}
	ann, _ := m["annotations"].(map[string]any)
	if ann == nil {
		ann = map[string]any{}
		m["annotations"] = ann
	}
	b, _ := json.Marshal(d)
	ann[LastAppliedAnnotation] = string(b)
	return out, true, false
}

// JSONEqual compares two JSON-like values by their canonical encoding.
func JSONEqual(a, b any) bool {
	ab, _ := json.Marshal(a)
	bb, _ := json.Marshal(b)
	return string(ab) == string(bb)
}
