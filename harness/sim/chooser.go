// Package verifsim is the shared verification harness for metacontroller.
// It exists only in the go-build overlay produced by /verif/bin/check; it is
// never written into the repository.
package verifsim

import "fmt"

// Chooser is the single source of non-determinism for every scenario
// interpreter. Implementations: rapid-backed (random + shrinking),
// exhaustive odometer, and replay from a recorded trace.
type Chooser interface {
	// Int returns a value in [0,n). n must be >= 1.
	Int(n int) int
}

// recChooser wraps a Chooser and records the choices made.
type recChooser struct {
	inner Chooser
	trace []int
}

func (r *recChooser) Int(n int) int {
	if n <= 0 {
		panic(fmt.Sprintf("verifsim: Chooser.Int(%d)", n))
	}
	v := r.inner.Int(n)
	r.trace = append(r.trace, v)
	return v
}

// replayChooser replays a recorded trace; out-of-range or exhausted values
// fall back to 0 (so replays stay usable across small generator edits).
type replayChooser struct {
	trace []int
	pos   int
}

func (r *replayChooser) Int(n int) int {
	if r.pos >= len(r.trace) {
		r.pos++
		return 0
	}
	v := r.trace[r.pos]
	r.pos++
	if v < 0 || v >= n {
		return 0
	}
	return v
}

// exhChooser enumerates all choice sequences depth-first (odometer).
type exhChooser struct {
	prefix []int
	bounds []int
	pos    int
}

func (e *exhChooser) Int(n int) int {
	if e.pos < len(e.prefix) {
		v := e.prefix[e.pos]
		e.bounds[e.pos] = n
		e.pos++
		if v >= n {
			v = n - 1
		}
		return v
	}
	e.prefix = append(e.prefix, 0)
	e.bounds = append(e.bounds, n)
	e.pos++
	return 0
}

// next advances to the next sequence; false when the space is exhausted.
func (e *exhChooser) next() bool {
	e.prefix = e.prefix[:e.pos]
	e.bounds = e.bounds[:e.pos]
	for i := len(e.prefix) - 1; i >= 0; i-- {
		if e.prefix[i]+1 < e.bounds[i] {
			e.prefix[i]++
			e.prefix = e.prefix[:i+1]
			e.bounds = e.bounds[:i+1]
			e.pos = 0
			return true
		}
	}
	return false
}
