package verifsim

import "fmt"

// JSON value generators, all driven by the Case chooser.

var genKeys = []string{"a", "b", "c", "name", "port", "x", "type", "key", "id"}
var genStrs = []string{"s1", "s2", "web", "db", ""}

// GenScalar draws a JSON scalar. Numbers are int64 or non-integral float64,
// matching what the k8s JSON decoder produces.
func GenScalar(c *Case, allowNull bool) any {
	n := 5
	if allowNull {
		n = 6
	}
	switch c.Int(n) {
	case 0:
		return genStrs[c.Int(len(genStrs))]
	case 1:
		return int64(c.Int(4))
	case 2:
		return c.Bool()
	case 3:
		return float64(c.Int(3)) + 0.5
	case 4:
		return int64(80 + c.Int(2)*8000)
	default:
		return nil
	}
}

// GenValue draws an arbitrary JSON value of bounded depth.
func GenValue(c *Case, depth int, allowNull bool) any {
	if depth <= 0 {
		return GenScalar(c, allowNull)
	}
	switch c.Weighted(4, 3, 2, 3) {
	case 0:
		return GenScalar(c, allowNull)
	case 1:
		return GenMap(c, depth-1, allowNull)
	case 2:
		n := c.Int(4)
		out := make([]any, 0, n)
		for i := 0; i < n; i++ {
			out = append(out, GenValue(c, depth-1, allowNull))
		}
		return out
	default:
		return GenListMap(c, depth-1, allowNull)
	}
}

// GenMap draws a JSON object.
func GenMap(c *Case, depth int, allowNull bool) map[string]any {
	n := c.Int(4)
	out := make(map[string]any, n)
	for i := 0; i < n; i++ {
		out[genKeys[c.Int(len(genKeys))]] = GenValue(c, depth, allowNull)
	}
	return out
}

// GenListMap draws a list of objects sharing a conventional merge key with
// unique key values.
func GenListMap(c *Case, depth int, allowNull bool) []any {
	key := refMergeKeys[c.Int(len(refMergeKeys))]
	n := c.Int(4)
	out := make([]any, 0, n)
	used := map[string]bool{}
	for i := 0; i < n; i++ {
		var kv any
		if key == "port" || key == "containerPort" {
			// also whole numbers that print in exponent form once they have been through a float64
			kv = []int64{80, 81, 82, 83, 1000620000, 2147483647, 30000000}[c.Int(7)]
		} else {
			kv = fmt.Sprintf("k%d", c.Int(4))
		}
		ks := fmt.Sprintf("%v", kv)
		if used[ks] {
			continue
		}
		used[ks] = true
		it := map[string]any{key: kv}
		m := c.Int(3)
		for j := 0; j < m; j++ {
			k := genKeys[c.Int(len(genKeys))]
			if k == key || k == "name" || k == "port" {
				// no second conventional key with possibly duplicate values:
				// the property quantifies over list-maps with unique keys
				continue
			}
			it[k] = GenValue(c, depth-1, allowNull)
		}
		out = append(out, it)
	}
	return out
}

// EditValue derives a value from base: keep, tweak, drop parts, add parts, or
// (rarely) replace by a value of another shape. Used to build lastApplied and
// desired as edits of observed so that the three overlap.
func EditValue(c *Case, base any, depth int, allowNull, allowClash bool) any {
	switch b := base.(type) {
	case map[string]any:
		if allowClash && c.Prob(1, 12) {
			return GenValue(c, depth, allowNull)
		}
		out := map[string]any{}
		for _, k := range sortedKeys(b) {
			switch c.Weighted(5, 3, 4) {
			case 0:
				out[k] = DeepCopyAny(b[k])
			case 1:
				// drop
			default:
				out[k] = EditValue(c, b[k], depth-1, allowNull, allowClash)
			}
		}
		if c.Prob(1, 3) {
			out[genKeys[c.Int(len(genKeys))]] = GenValue(c, maxInt(depth-1, 0), allowNull)
		}
		return out
	case []any:
		if allowClash && c.Prob(1, 12) {
			return GenValue(c, depth, allowNull)
		}
		out := []any{}
		for _, it := range b {
			switch c.Weighted(5, 2, 3) {
			case 0:
				out = append(out, DeepCopyAny(it))
			case 1:
			default:
				if m, ok := it.(map[string]any); ok {
					// keep conventional keys so list-map identity survives
					e := EditValue(c, m, depth-1, allowNull, false).(map[string]any)
					for _, mk := range refMergeKeys {
						if v, ok := m[mk]; ok {
							e[mk] = v
						}
					}
					out = append(out, e)
				} else {
					out = append(out, EditValue(c, it, depth-1, allowNull, allowClash))
				}
			}
		}
		if c.Prob(1, 3) && len(b) > 0 {
			if m, ok := b[0].(map[string]any); ok {
				for _, mk := range refMergeKeys {
					if _, ok := m[mk]; ok {
						out = append(out, map[string]any{mk: fmt.Sprintf("new%d", c.Int(2)), "x": GenScalar(c, false)})
						break
					}
				}
			}
		}
		if c.Prob(1, 5) && len(out) > 1 {
			out[0], out[len(out)-1] = out[len(out)-1], out[0]
		}
		return out
	default:
		if c.Prob(1, 2) {
			return base
		}
		if allowClash && c.Prob(1, 6) {
			return GenValue(c, 1, allowNull)
		}
		return GenScalar(c, allowNull)
	}
}

func maxInt(a, b int) int {
	if a > b {
		return a
	}
	return b
}

func sortedKeys(m map[string]any) []string {
	out := make([]string, 0, len(m))
	for k := range m {
		out = append(out, k)
	}
	// insertion sort: maps here are tiny
	for i := 1; i < len(out); i++ {
		for j := i; j > 0 && out[j] < out[j-1]; j-- {
			out[j], out[j-1] = out[j-1], out[j]
		}
	}
	return out
}

// HasListMapDup reports whether any list in v that would be detected as a
// list-map contains duplicate or non-scalar keys.
func ListMapKeysUnique(list []any) bool {
	key := refDetectKey(list)
	if key == "" {
		return true
	}
	seen := map[string]bool{}
	for _, it := range list {
		ks, ok := refKeyString(it.(map[string]any)[key])
		if !ok || seen[ks] {
			return false
		}
		seen[ks] = true
	}
	return true
}

// EditMap is EditValue for a top-level object: the result is always an object,
// clashes (if allowed) happen only below the top level.
func EditMap(c *Case, base map[string]any, depth int, allowNull, allowClash bool) map[string]any {
	out := map[string]any{}
	for _, k := range sortedKeys(base) {
		switch c.Weighted(5, 3, 4) {
		case 0:
			out[k] = DeepCopyAny(base[k])
		case 1:
		default:
			out[k] = EditValue(c, base[k], depth-1, allowNull, allowClash)
		}
	}
	if c.Prob(1, 3) {
		out[genKeys[c.Int(len(genKeys))]] = GenValue(c, maxInt(depth-1, 0), allowNull)
	}
	return out
}
