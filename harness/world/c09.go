package verifworld

import (
	"encoding/json"
	"fmt"
	"net/http"
	"sort"
	"strings"
	"time"

	vs "metacontroller/pkg/internal/verifsim"
)

// CutPlan disturbs one request of one sync.
type CutPlan struct {
	Sync int    `json:"sync"` // index among the rollout-phase syncs (0-based), -1 = none
	Req  int    `json:"req"`  // index of the request within that sync
	Kind string `json:"kind"` // crash | err500 | lost-response | conflict
}

// rolloutOutcome is the canonical end state used for differential comparison.
type rolloutOutcome struct {
	Children  map[string]string
	Revisions []string
	Updated   string
	ReqCounts []int   // requests per rollout-phase sync (baseline only)
	RevReqs   [][]int // per rollout-phase sync: indices of the requests on ControllerRevisions (baseline only)
	RevDels   [][]int // ... and of the ControllerRevision deletions among them
	Mixed     []bool
}

func (o *rolloutOutcome) String() string {
	var ks []string
	for k, v := range o.Children {
		ks = append(ks, k+"="+v)
	}
	sort.Strings(ks)
	return fmt.Sprintf("children{%s} revisions%v updated=%s", strings.Join(ks, " "), o.Revisions, o.Updated)
}

func isRevWrite(r *vs.Request) bool {
	return r.Mutating() && r.Def.Resource == "controllerrevisions"
}

// isOwnershipEdit: an accepted update that changes nothing but metadata.ownerReferences
// (adoption or release, which precede the hook calls).
func isOwnershipEdit(r *vs.Request) bool {
	if r.Verb != "update" || r.Pre == nil || r.Post == nil {
		return false
	}
	a, b := stripServerFields(r.Pre), stripServerFields(r.Post)
	delete(a["metadata"].(map[string]any), "ownerReferences")
	delete(b["metadata"].(map[string]any), "ownerReferences")
	return vs.JSONEqual(a, b)
}

func isChildWrite(e *Env, r *vs.Request) bool {
	if !r.Mutating() || r.Def.Resource == "controllerrevisions" || r.Def.Resource == e.Scn.Cfg.ParentResource {
		return false
	}
	// adoption / release edits (ownerReferences only) are not content writes
	if r.Verb == "update" && r.Pre != nil && r.Post != nil {
		a, b := stripServerFields(r.Pre), stripServerFields(r.Post)
		delete(a["metadata"].(map[string]any), "ownerReferences")
		delete(b["metadata"].(map[string]any), "ownerReferences")
		if vs.JSONEqual(a, b) {
			return false
		}
	}
	return true
}

// judgeIntentFirst: revision bookkeeping precedes child writes; a failed
// revision write means no child is touched.
func judgeIntentFirst(e *Env, t *SyncTrace) error {
	firstChild := -1
	// revision writes that failed and were not made good by a later accepted write to the same
	// object (an optimistic-lock conflict that is retried successfully is not a failure)
	failedRev := map[string]bool{}
	for i, r := range t.Reqs {
		if r.Dropped {
			continue
		}
		if isRevWrite(r) {
			if firstChild >= 0 {
				return vs.Violf("C09/revision-write-after-child-write", "%s comes after child write %s in the same sync", r.String(), t.Reqs[firstChild].String())
			}
			key := r.Namespace + "/" + r.Name
			if r.Verb == "create" && r.Body != nil {
				key = r.Namespace + "/" + metaStr(r.Body, "name")
			}
			if !r.Accepted() {
				failedRev[key] = true
			} else {
				delete(failedRev, key)
			}
		}
		revFailed := len(failedRev) > 0
		if isChildWrite(e, r) {
			if firstChild < 0 {
				firstChild = i
			}
			if revFailed {
				return vs.Violf("C09/child-write-after-failed-revision-write", "%s was sent although a ControllerRevision write failed earlier in this sync", r.String())
			}
		}
	}
	return nil
}

// revisionView reads the stored revisions of the parent: patch -> claimed widget names.
type revView struct {
	Name   string
	Patch  map[string]any
	Names  []string
	Latest bool
}

func (e *Env) revisionViews() []*revView {
	parent := e.Parent()
	if parent == nil {
		return nil
	}
	lp := makePatchRef(parent, fieldPathsOf(&e.Scn.Cfg))
	var out []*revView
	for _, ro := range e.W.Sim.ListAll("controllerrevisions") {
		if ControllerOf(ro) != e.ParentUID {
			continue
		}
		rv := &revView{Name: metaStr(ro, "name")}
		rv.Patch, _ = ro["parentPatch"].(map[string]any)
		rv.Latest = vs.JSONEqual(rv.Patch, lp)
		kids, _ := ro["children"].([]any)
		for _, k := range kids {
			km, _ := k.(map[string]any)
			if km["kind"] == "Widget" {
				ns, _ := km["names"].([]any)
				for _, n := range ns {
					rv.Names = append(rv.Names, fmt.Sprint(n))
				}
			}
		}
		out = append(out, rv)
	}
	sort.Slice(out, func(i, j int) bool { return out[i].Name < out[j].Name })
	return out
}

// judgeNotAhead: no rolling child is ahead of the revision recorded for it.
func (e *Env) judgeNotAhead(where string) error {
	parent := e.Parent()
	if parent == nil {
		return nil
	}
	paths := fieldPathsOf(&e.Scn.Cfg)
	views := e.revisionViews()
	dLatest := map[string]map[string]any{}
	for _, d := range e.Scn.Prog.DesiredAll(e.W.Sim, parent) {
		n := e.NormalizeDesired(d)
		if n["kind"] == "Widget" {
			dLatest[metaStr(n, "name")] = n
		}
	}
	for _, rv := range views {
		if rv.Latest {
			continue
		}
		oldParent := applyPatchRef(parent, rv.Patch, paths)
		dOld := map[string]map[string]any{}
		for _, d := range e.Scn.Prog.DesiredAll(e.W.Sim, oldParent) {
			n := e.NormalizeDesired(d)
			if n["kind"] == "Widget" {
				dOld[metaStr(n, "name")] = n
			}
		}
		for _, name := range rv.Names {
			dl, do := dLatest[name], dOld[name]
			if dl == nil || do == nil || vs.JSONEqual(dl, do) {
				continue
			}
			// also listed in the latest revision? then the latest claim wins - not ahead
			inLatest := false
			for _, lv := range views {
				if lv.Latest {
					for _, n := range lv.Names {
						if n == name {
							inLatest = true
						}
					}
				}
			}
			if inLatest {
				continue
			}
			child := e.W.Sim.Get("widgets", "ns1", name)
			if child == nil {
				continue
			}
			la := AnnotationsOf(child)[vs.LastAppliedAnnotation]
			rec, err := vs.DecodeJSON([]byte(la))
			if err != nil {
				continue
			}
			if vs.JSONEqual(rec, dl) {
				return vs.Violf("C09/child-ahead-of-its-revision", "%s: child %s already carries the latest revision's desired state, but the stored ControllerRevisions still assign it to old revision %s (and not to the latest)", where, name, rv.Name)
			}
		}
	}
	return nil
}

func (e *Env) judgeSingleClaims(where string) error {
	seen := map[string]string{}
	for _, rv := range e.revisionViews() {
		for _, n := range rv.Names {
			if other, dup := seen[n]; dup {
				return vs.Violf("C09/child-claimed-twice", "%s: rolling child %s is listed in two ControllerRevisions (%s and %s)", where, n, other, rv.Name)
			}
			seen[n] = rv.Name
		}
	}
	return nil
}

func (e *Env) outcome() *rolloutOutcome {
	o := &rolloutOutcome{Children: map[string]string{}}
	for name, w := range e.ownedWidgets() {
		spec, _ := w["spec"].(map[string]any)
		o.Children[name] = fmt.Sprintf("v=%v mode=%v", spec["v"], spec["mode"])
	}
	desired := map[string]bool{}
	if p := e.Parent(); p != nil {
		for _, d := range e.Scn.Prog.DesiredAll(e.W.Sim, p) {
			desired[metaStr(d, "name")] = true
		}
		if c := condOf(p, "Updated"); c != nil {
			o.Updated = fmt.Sprintf("%v/%v", c["status"], c["reason"])
		}
	}
	for _, rv := range e.revisionViews() {
		var ns []string
		for _, n := range rv.Names {
			if desired[n] {
				ns = append(ns, n)
			}
		}
		sort.Strings(ns)
		o.Revisions = append(o.Revisions, fmt.Sprintf("latest=%v%v", rv.Latest, ns))
	}
	sort.Strings(o.Revisions)
	return o
}

// runRolloutWithCut replays the scenario's scripted history with one disturbance.
// c09OrphanRevisions: the scenario strips the owner references of the parent's ControllerRevisions
// once the rollout is under way (restored from a backup, say): the next sync has to adopt them again.
var c09OrphanRevisions bool

// c09RevisionCacheLate: after the simulated restart the ControllerRevision cache is still empty at the first sync.
var c09RevisionCacheLate bool

func runRolloutWithCut(scn *Scn, f Factory, edits []int, midSyncs int, ogStyle int, plan CutPlan, c *vs.Case) (*rolloutOutcome, error) {
	env, err := NewEnv(scn, f)
	if err != nil {
		return nil, fmt.Errorf("harness: %v", err)
	}
	env.OGStyle = ogStyle
	out := &rolloutOutcome{}
	phase := -1 // index among rollout-phase syncs
	fair := func(counted bool) (*SyncTrace, error) {
		env.MakeHealthy()
		if counted {
			phase++
		}
		active := counted && plan.Sync == phase
		if active && plan.Kind == "stale-revisions" {
			// the ControllerRevision informer is a stream of its own: this sync runs before it has
			// delivered what the previous sync wrote (every other cache is current)
			for _, r := range env.W.ResourceNames() {
				if r != "controllerrevisions" {
					env.W.SyncCache(r)
				}
			}
		} else {
			env.W.SyncAll()
		}
		count := 0
		crashed := false
		if active && strings.HasPrefix(plan.Kind, "hook-") {
			// the webhook fails for one revision's call only: the one made for the latest parent state,
			// or those made for superseded revisions
			latestV, _ := getPath(env.Parent(), "spec.template.v")
			prog := scn.Prog
			env.W.Hooks.Handle(SyncURL, func(_ *http.Request, body []byte) HookResponse {
				req, err := vs.DecodeJSON(body)
				if err != nil {
					return HookResponse{Code: 400}
				}
				p, _ := req["parent"].(map[string]any)
				v, _ := getPath(p, "spec.template.v")
				isLatest := vs.JSONEqual(v, latestV)
				if plan.Kind == "hook-429" {
					// the hook is overloaded: every per-revision call of this sync is told to come back in 7 s
					return HookResponse{Code: 429, Body: []byte("slow down"), Header: http.Header{"Retry-After": []string{"7"}}}
				}
				if (plan.Kind == "hook-latest") == isLatest {
					return HookResponse{Code: 503, Body: []byte("unavailable")}
				}
				time.Sleep(3 * time.Millisecond) // the calls that succeed are the slower ones
				b, _ := json.Marshal(prog.EvalComposite(env.W.Sim, req))
				return HookResponse{Code: 200, Body: b}
			})
		}
		if active && !strings.HasPrefix(plan.Kind, "hook-") {
			env.W.Sim.Before = func(r *vs.Request) *vs.Fault {
				idx := count
				count++
				switch plan.Kind {
				case "crash":
					if idx > plan.Req {
						crashed = true
						env.W.Sim.Dead = true
						return &vs.Fault{Transport: fmt.Errorf("connection reset (process crashed)")}
					}
				case "err500":
					if idx == plan.Req {
						return &vs.Fault{Code: 500, Reason: "InternalError", Message: "injected"}
					}
				case "lost-response":
					if idx == plan.Req {
						return &vs.Fault{AfterCommit: true, Transport: fmt.Errorf("i/o timeout (response lost)")}
					}
				case "conflict":
					if idx == plan.Req && r.Mutating() {
						return &vs.Fault{Code: 409, Reason: "Conflict", Message: "injected conflict"}
					}
				}
				return nil
			}
		}
		t := env.Sync()
		env.W.Sim.Before = nil
		if active && strings.HasPrefix(plan.Kind, "hook-") {
			scn.Prog.Install(env.W, scn.Cfg.Kind)
			failed := false
			for _, h := range t.Hooks {
				if h.Response.Code == 503 {
					failed = true
				}
			}
			if plan.Kind == "hook-429" {
				n429 := 0
				for _, h := range t.Hooks {
					if h.Response.Code == 429 {
						n429++
					}
				}
				if n429 > 0 {
					c.Class("hook-429-for-%d-revision-calls", n429)
					after := false
					for _, q := range t.Queue {
						if q.Op == "AddAfter" && q.Delay == 7*time.Second {
							after = true
						}
					}
					if !after || t.Err != nil {
						return t, withTrace(vs.Violf("C12/429-not-requeued-after-delay", "%d per-revision hook call(s) of one sync were answered 429 with Retry-After: 7; the parent must be queued again after 7 s and the sync must not count as failed, but the sync returned %v and the queue saw %v", n429, t.Err, t.Queue), t)
					}
					for _, r := range t.Reqs {
						if isChildWrite(env, r) || (isRevWrite(r) && !isOwnershipEdit(r)) {
							return t, withTrace(vs.Violf("C09/acted-on-partial-hook-results", "every hook call was answered 429, yet the sync issued %s", r.String()), t)
						}
					}
				}
			}
			if failed {
				c.Class("hook-call-of-one-revision-failed")
				// a sync in which any revision's hook failed must not act on the others' answers
				for _, r := range t.Reqs {
					if isChildWrite(env, r) || (isRevWrite(r) && !isOwnershipEdit(r)) {
						return t, withTrace(vs.Violf("C09/acted-on-partial-hook-results", "the hook call for %s failed, yet the sync issued %s", map[string]string{"hook-latest": "the latest parent state", "hook-old": "a superseded revision"}[plan.Kind], r.String()), t)
					}
				}
			}
		}
		if t.Panic != "" {
			return t, vs.Violf("C09/panic", "panic: %s", t.Panic)
		}
		if err := judgeIntentFirst(env, t); err != nil {
			return t, withTrace(err, t)
		}
		if counted && plan.Sync < 0 {
			out.ReqCounts = append(out.ReqCounts, len(t.Reqs))
			var revIdx, delIdx []int
			for i, r := range t.Reqs {
				if r.Def.Resource == "controllerrevisions" {
					revIdx = append(revIdx, i)
					if r.Verb == "delete" {
						delIdx = append(delIdx, i)
					}
				}
			}
			out.RevReqs = append(out.RevReqs, revIdx)
			out.RevDels = append(out.RevDels, delIdx)
			hasRev, hasChild := false, false
			for _, r := range t.Reqs {
				if isRevWrite(r) {
					hasRev = true
				}
				if isChildWrite(env, r) {
					hasChild = true
				}
			}
			out.Mixed = append(out.Mixed, hasRev && hasChild)
		}
		if active && plan.Kind == "crash" {
			_ = crashed
			env.W.Sim.Dead = false
			// the store as a restarted process finds it
			if err := env.judgeNotAhead(fmt.Sprintf("after a crash following request %d of rollout sync %d", plan.Req, plan.Sync)); err != nil {
				return t, withTrace(err, t)
			}
			if err := env.Restart(); err != nil {
				return t, fmt.Errorf("harness: %v", err)
			}
			env.OGStyle = ogStyle
			// first recovered sync
			env.MakeHealthy()
			if c09RevisionCacheLate {
				// nothing makes a restarted metacontroller wait for its ControllerRevision cache: the first
				// sync may run before that cache has listed anything
				for _, r := range env.W.ResourceNames() {
					if r != "controllerrevisions" {
						env.W.SyncCache(r)
					}
				}
			} else {
				env.W.SyncAll()
			}
			t2 := env.Sync()
			if t2.Panic != "" {
				return t2, vs.Violf("C09/panic", "panic after restart: %s", t2.Panic)
			}
			if err := judgeIntentFirst(env, t2); err != nil {
				return t2, withTrace(err, t2)
			}
			if t2.Err == nil {
				if err := env.judgeSingleClaims("after the first sync of the restarted process"); err != nil {
					return t2, withTrace(err, t2)
				}
			}
			if err := env.judgeNotAhead("after the first sync of the restarted process"); err != nil {
				return t2, withTrace(err, t2)
			}
		} else if active {
			if err := env.judgeNotAhead(fmt.Sprintf("after %s at request %d of rollout sync %d", plan.Kind, plan.Req, plan.Sync)); err != nil {
				return t, withTrace(err, t)
			}
		} else if counted {
			// every sync boundary is a possible crash point too
			if err := env.judgeNotAhead(fmt.Sprintf("after rollout sync %d", phase)); err != nil {
				return t, withTrace(err, t)
			}
		}
		return t, nil
	}
	for i := 0; i < 3; i++ {
		if _, err := fair(false); err != nil {
			return nil, err
		}
	}
	n := len(env.ownedWidgets())
	for ei, which := range edits {
		env.editParent(which)
		if ei == 0 && len(edits) > 1 {
			for i := 0; i < midSyncs; i++ {
				if _, err := fair(true); err != nil {
					return nil, err
				}
			}
		}
	}
	if c09OrphanRevisions {
		for _, ro := range env.W.Sim.ListAll("controllerrevisions") {
			if ControllerOf(ro) == env.ParentUID {
				env.W.Sim.ExtUpdate("controllerrevisions", metaStr(ro, "namespace"), metaStr(ro, "name"), func(o map[string]any) {
					delete(o["metadata"].(map[string]any), "ownerReferences")
				})
			}
		}
	}
	if nn := len(scn.Prog.DesiredAll(env.W.Sim, env.Parent())); nn > n {
		n = nn
	}
	bound := 3*n + 8
	for i := 0; i < bound; i++ {
		if _, err := fair(true); err != nil {
			return nil, err
		}
	}
	o := env.outcome()
	o.ReqCounts, o.Mixed, o.RevReqs, o.RevDels = out.ReqCounts, out.Mixed, out.RevReqs, out.RevDels
	if v := env.SharedStateViolation(); v != nil {
		return o, v
	}
	return o, nil
}

var c09BaseCache = map[string]*rolloutOutcome{}

// PropC09: rollout intent is persisted before acting; any crash resumes consistently.
// One case = one generated rollout scenario + one disturbance (crash, 500, lost
// response or conflict) at one request position of one rollout sync. Under the
// exhaustive driver every position x kind of every enumerated scenario is visited.
func PropC09(c *vs.Case, f Factory, o RolloutOpts) error {
	scn := NewRolloutScn(c, o)
	ogStyle := 0
	if !o.Small {
		ogStyle = c.Weighted(5, 1, 1, 1)
	}
	edits := []int{1}
	if !o.Small && c.Prob(1, 4) {
		edits = []int{6} // the first change only adds a key to a revisioned field
		c.Class("additive-change")
	}
	midSyncs := 0
	if !o.SingleEdit && c.Bool() {
		second := 1
		if o.Scale && c.Bool() {
			second = 3 + c.Int(2)
		} else if c.Bool() {
			second = 2
		} else if !o.Small && c.Prob(1, 3) {
			second = 6
		}
		edits = append(edits, second)
		midSyncs = c.Int(3)
	}
	if !o.Small && !o.SingleEdit && c.Prob(1, 5) {
		// the parent is deleted while the rollout runs; its finalize hook keeps asking for the children
		scn.Cfg.FinalizeHook = true
		scn.Prog.FinalizeMode = 1
		scn.Prog.FinalizedMode = 2
		edits = append(edits[:1], 9)
		midSyncs = c.Int(3)
		c.Class("parent-deleted-mid-rollout")
	}
	dying := false
	for _, e := range edits {
		if e == 9 {
			dying = true // a parent pending deletion adopts nothing: orphaned revisions would stay orphaned
		}
	}
	c09OrphanRevisions = !o.Small && !dying && c.Prob(1, 5)
	if c09OrphanRevisions {
		c.Class("revisions-orphaned-mid-rollout")
	}
	orphaned := c09OrphanRevisions
	cur := CutPlan{Sync: -1}
	c.Describe(func() any {
		return map[string]any{"scenario": scn, "edits": edits, "midSyncs": midSyncs, "ogStyle": ogStyle, "cut": cur, "revisionsOrphanedMidRollout": orphaned}
	})
	key := fmt.Sprint(c.Trace())
	base := c09BaseCache[key]
	if base == nil {
		var err error
		base, err = runRolloutWithCut(scn, f, edits, midSyncs, ogStyle, cur, c)
		if err != nil {
			return err
		}
		if len(c09BaseCache) > 64 {
			c09BaseCache = map[string]*rolloutOutcome{}
		}
		c09BaseCache[key] = base
	}
	type cut struct{ s, r int }
	var cuts []cut
	for s, n := range base.ReqCounts {
		for r := 0; r < n; r++ {
			cuts = append(cuts, cut{s, r})
		}
	}
	if len(cuts) == 0 {
		return nil
	}
	kinds := []string{"crash", "err500", "lost-response", "conflict", "hook-old", "hook-latest", "stale-revisions", "hook-429"}
	ct := cuts[c.Int(len(cuts))]
	kind := kinds[c.Int(len(kinds))]
	if orphaned && c.Bool() {
		// aim at the requests that re-adopt the orphaned revisions
		var revCuts []cut
		for s, idx := range base.RevReqs {
			for _, r := range idx {
				revCuts = append(revCuts, cut{s, r})
			}
		}
		if len(revCuts) > 0 {
			ct = revCuts[c.Int(len(revCuts))]
			kind = kinds[c.Int(4)]
			c.Class("cut-at-revision-request-after-orphaning")
		}
	}
	if !o.Small {
		// a sync that deletes several drained revisions: fail one that is not the last
		var multi []cut
		for s, idx := range base.RevDels {
			for k := 0; k+1 < len(idx); k++ {
				multi = append(multi, cut{s, idx[k]})
			}
		}
		if len(multi) > 0 && c.Bool() {
			ct = multi[c.Int(len(multi))]
			kind = c.PickStr("err500", "conflict", "lost-response")
			c.Class("cut-at-a-revision-delete-that-is-not-the-last")
		}
	}
	cur = CutPlan{Sync: ct.s, Req: ct.r, Kind: kind}
	c.Class("cut:%s", kind)
	// Since /repo 2bc896d a restarted controller waits for its ControllerRevision cache, so "first sync on
	// an empty revision cache" is no longer a reachable schedule at this level; the real start-up path is
	// driven by PropC09RestartBeforeRevisionCache (c09gate.go), which is what found that defect.
	c09RevisionCacheLate = false
	if base.Mixed[ct.s] {
		c.NonTrivial()
		c.Class("cut-in-sync-with-revision-and-child-writes")
	}
	got, err := runRolloutWithCut(scn, f, edits, midSyncs, ogStyle, cur, c)
	if err != nil {
		if v, ok := err.(*vs.Violation); ok {
			v.Msg = fmt.Sprintf("[cut %+v] %s", cur, v.Msg)
		}
		return err
	}
	if got.String() != base.String() {
		return vs.Violf("C09/recovery-diverges", "[cut %+v] after the disturbance the rollout ended in a different state than the undisturbed run\nundisturbed: %s\ndisturbed:   %s", cur, base.String(), got.String())
	}
	return nil
}
