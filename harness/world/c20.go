package verifworld

import (
	"bytes"
	"context"
	"encoding/json"
	"fmt"
	"io"
	"net/http"
	"sort"
	"strings"
	"sync"
	"sync/atomic"
	"time"

	"metacontroller/pkg/apis/metacontroller/v1alpha1"
	dynamicinformer "metacontroller/pkg/dynamic/informer"
	vs "metacontroller/pkg/internal/verifsim"

	apiextensionsv1 "k8s.io/apiextensions-apiserver/pkg/apis/apiextensions/v1"
	metav1 "k8s.io/apimachinery/pkg/apis/meta/v1"
	"k8s.io/apimachinery/pkg/runtime"
	"sigs.k8s.io/controller-runtime/pkg/client"
	"sigs.k8s.io/controller-runtime/pkg/client/fake"
)

// HookRouter replaces http.DefaultTransport: hosted controllers build real
// http.Clients, whose requests end up here. Every call is logged with its URL,
// which identifies the controller instance (the URL changes with every spec version).
type HookRouter struct {
	mu sync.Mutex
	// HoldCustomize, when set, is called (and may block) before a customize answer that names related resources is returned.
	HoldCustomize func()
	// Answer, when set, computes the response body (nil: the fixed default answers below).
	Answer func(url string, body map[string]any) map[string]any
	Calls  []HookCall
	sim    *vs.Server
}

type HookCall struct {
	URL  string
	At   time.Time
	Body map[string]any
}

func (h *HookRouter) RoundTrip(req *http.Request) (*http.Response, error) {
	var body []byte
	if req.Body != nil {
		body, _ = io.ReadAll(req.Body)
		req.Body.Close()
	}
	m, _ := vs.DecodeJSON(body)
	h.mu.Lock()
	h.Calls = append(h.Calls, HookCall{URL: req.URL.String(), At: time.Now(), Body: m})
	answer := h.Answer
	h.mu.Unlock()
	resp := map[string]any{"children": []any{}, "attachments": []any{}, "status": map[string]any{"seen": true}}
	if answer != nil {
		if r := answer(req.URL.String(), m); r != nil {
			b, _ := json.Marshal(r)
			return &http.Response{StatusCode: 200, Status: "200 OK", Proto: "HTTP/1.1", ProtoMajor: 1, ProtoMinor: 1,
				Header: http.Header{"Content-Type": []string{"application/json"}}, Body: io.NopCloser(bytes.NewReader(b)), ContentLength: int64(len(b)), Request: req}, nil
		}
	}
	if strings.HasSuffix(req.URL.Path, "/customize") {
		resp = map[string]any{"relatedResources": []any{}}
	}
	if strings.HasSuffix(req.URL.Path, "/customize-gadgets") {
		resp = map[string]any{"relatedResources": []any{map[string]any{"apiVersion": "other.io/v1beta1", "resource": "gadgets"}}}
		h.mu.Lock()
		hold := h.HoldCustomize
		h.mu.Unlock()
		if hold != nil {
			hold() // a slow customize webhook
		}
	}
	b, _ := json.Marshal(resp)
	return &http.Response{StatusCode: 200, Status: "200 OK", Proto: "HTTP/1.1", ProtoMajor: 1, ProtoMinor: 1,
		Header: http.Header{"Content-Type": []string{"application/json"}}, Body: io.NopCloser(bytes.NewReader(b)), ContentLength: int64(len(b)), Request: req}, nil
}

func (h *HookRouter) CallsTo(prefix string, since time.Time) int {
	h.mu.Lock()
	defer h.mu.Unlock()
	n := 0
	for _, c := range h.Calls {
		if strings.HasPrefix(c.URL, prefix) && c.At.After(since) {
			n++
		}
	}
	return n
}

func (h *HookRouter) CallsAbout(prefix, parentName string) int {
	h.mu.Lock()
	defer h.mu.Unlock()
	n := 0
	for _, c := range h.Calls {
		if !strings.HasPrefix(c.URL, prefix) {
			continue
		}
		for _, k := range []string{"parent", "object"} {
			if p, ok := c.Body[k].(map[string]any); ok && metaStr(p, "name") == parentName {
				n++
			}
		}
	}
	return n
}

// C20Driver is implemented in-package by the composite and decorator harness files.
type C20Driver interface {
	// Reconcile runs Metacontroller.Reconcile for the named controller object.
	Reconcile(name string) error
	// Running returns name -> (instance identity, JSON of the spec it runs with).
	Running() map[string][2]string
}

// C20Env is what a driver is built from.
type C20Env struct {
	W       *World
	K8s     client.Client
	Factory *dynamicinformer.SharedInformerFactory
	Router  *HookRouter
}

var c20TransportOnce sync.Once
var c20Router = &HookRouter{}

func NewC20Env() *C20Env {
	c20TransportOnce.Do(func() { http.DefaultTransport = c20Router })
	c20Router.mu.Lock()
	c20Router.Calls = nil
	c20Router.Answer = nil
	c20Router.mu.Unlock()
	w := NewWorld()
	scheme := runtime.NewScheme()
	_ = v1alpha1.AddToScheme(scheme)
	_ = apiextensionsv1.AddToScheme(scheme)
	crd := func(res, group, kind string, status bool) *apiextensionsv1.CustomResourceDefinition {
		v := apiextensionsv1.CustomResourceDefinitionVersion{Name: "v1", Served: true, Storage: true}
		if status {
			v.Subresources = &apiextensionsv1.CustomResourceSubresources{Status: &apiextensionsv1.CustomResourceSubresourceStatus{}}
		}
		return &apiextensionsv1.CustomResourceDefinition{ObjectMeta: metav1.ObjectMeta{Name: res + "." + group},
			Spec: apiextensionsv1.CustomResourceDefinitionSpec{Group: group, Names: apiextensionsv1.CustomResourceDefinitionNames{Plural: res, Kind: kind}, Versions: []apiextensionsv1.CustomResourceDefinitionVersion{v}}}
	}
	k8s := fake.NewClientBuilder().WithScheme(scheme).WithObjects(
		crd("things", "ex.io", "Thing", true), crd("cthings", "ex.io", "CThing", true), crd("plains", "ex.io", "Plain", false)).Build()
	return &C20Env{W: w, K8s: k8s, Factory: dynamicinformer.NewSharedInformerFactory(w.DynClient, 10*time.Minute), Router: c20Router}
}

// c20Spec is a generated controller spec version.
type c20Spec struct {
	Version int    `json:"version"`
	Variant string `json:"variant"`
	Parent  string `json:"parent"`
	Valid   bool   `json:"valid"`
	Child   string `json:"child"`
}

func (s c20Spec) urlPrefix(name string) string {
	return fmt.Sprintf("http://hook.invalid/%s/v%d/", name, s.Version)
}

var c20Variants = []string{"plain", "plain", "plain", "timeout-zero", "etag-full", "etag-no-cleanup", "etag-no-timeout", "etag-disabled", "resync", "customize", "customize-related", "customize-related",
	"unknown-parent", "unknown-child", "no-hooks", "empty-webhook", "service-no-path", "service-ok", "no-status-crd", "strict", "finalize"}

func (s c20Spec) webhook(name, hook string) *v1alpha1.Hook {
	url := s.urlPrefix(name) + hook
	wh := &v1alpha1.Webhook{URL: &url}
	t, f := true, false
	i10, i1 := int32(10), int32(1)
	switch s.Variant {
	case "timeout-zero":
		wh.Timeout = &metav1.Duration{Duration: 0}
	case "etag-full":
		wh.Etag = &v1alpha1.WebhookEtagConfig{Enabled: &t, CacheTimeoutSeconds: &i10, CacheCleanupSeconds: &i1}
	case "etag-no-cleanup":
		wh.Etag = &v1alpha1.WebhookEtagConfig{Enabled: &t, CacheTimeoutSeconds: &i10}
	case "etag-no-timeout":
		wh.Etag = &v1alpha1.WebhookEtagConfig{Enabled: &t, CacheCleanupSeconds: &i1}
	case "etag-disabled":
		wh.Etag = &v1alpha1.WebhookEtagConfig{Enabled: &f}
	case "empty-webhook":
		wh = &v1alpha1.Webhook{}
	case "service-no-path":
		wh = &v1alpha1.Webhook{Service: &v1alpha1.ServiceReference{Name: "svc", Namespace: "ns"}}
	case "service-ok":
		// a service reference resolves to cluster DNS; the router keys on the path only
		p := fmt.Sprintf("/%s/v%d/%s", name, s.Version, hook)
		port, proto := int32(80), "http"
		wh = &v1alpha1.Webhook{Service: &v1alpha1.ServiceReference{Name: "hook", Namespace: "invalid", Port: &port, Protocol: &proto}, Path: &p}
	case "strict":
		m := v1alpha1.ResponseUnmarshallModeStrict
		wh.ResponseUnmarshallMode = &m
	}
	return &v1alpha1.Hook{Webhook: wh}
}

func genC20Spec(c *vs.Case, version int) c20Spec {
	s := c20Spec{Version: version, Variant: c20Variants[c.Int(len(c20Variants))], Parent: "things", Child: c.PickStr("widgets", "configmaps"), Valid: true}
	switch s.Variant {
	case "unknown-parent":
		s.Parent = "nosuch"
		s.Valid = false
	case "unknown-child":
		s.Child = "nosuch"
		s.Valid = false
	case "no-hooks", "empty-webhook", "service-no-path":
		s.Valid = false
	case "no-status-crd":
		s.Parent = "plains"
	}
	return s
}

// CompositeObj renders the CompositeController for a spec version.
func (s c20Spec) CompositeObj(name string, labels map[string]string) *v1alpha1.CompositeController {
	cc := &v1alpha1.CompositeController{TypeMeta: metav1.TypeMeta{APIVersion: "metacontroller.k8s.io/v1alpha1", Kind: "CompositeController"},
		ObjectMeta: metav1.ObjectMeta{Name: name, Labels: labels}}
	cc.Spec.ParentResource.APIVersion = "ex.io/v1"
	cc.Spec.ParentResource.Resource = s.Parent
	av := "ex.io/v1"
	if s.Child == "configmaps" {
		av = "v1"
	}
	cc.Spec.ChildResources = []v1alpha1.CompositeControllerChildResourceRule{{ResourceRule: v1alpha1.ResourceRule{APIVersion: av, Resource: s.Child},
		UpdateStrategy: &v1alpha1.CompositeControllerChildUpdateStrategy{Method: v1alpha1.ChildUpdateInPlace}}}
	t := true
	cc.Spec.GenerateSelector = &t
	if s.Variant != "no-hooks" {
		cc.Spec.Hooks = &v1alpha1.CompositeControllerHooks{Sync: s.webhook(name, "sync")}
		if s.Variant == "customize" {
			cc.Spec.Hooks.Customize = s.webhook(name, "customize")
		}
		if s.Variant == "customize-related" {
			cc.Spec.Hooks.Customize = s.webhook(name, "customize-gadgets")
		}
		if s.Variant == "finalize" {
			cc.Spec.Hooks.Finalize = s.webhook(name, "finalize")
		}
	}
	if s.Variant == "resync" {
		r := int32(3600)
		cc.Spec.ResyncPeriodSeconds = &r
	}
	return cc
}

// DecoratorObj renders the DecoratorController for a spec version.
func (s c20Spec) DecoratorObj(name string, labels map[string]string) *v1alpha1.DecoratorController {
	dc := &v1alpha1.DecoratorController{TypeMeta: metav1.TypeMeta{APIVersion: "metacontroller.k8s.io/v1alpha1", Kind: "DecoratorController"},
		ObjectMeta: metav1.ObjectMeta{Name: name, Labels: labels}}
	dc.Spec.Resources = []v1alpha1.DecoratorControllerResourceRule{{ResourceRule: v1alpha1.ResourceRule{APIVersion: "ex.io/v1", Resource: s.Parent}}}
	av := "ex.io/v1"
	if s.Child == "configmaps" {
		av = "v1"
	}
	dc.Spec.Attachments = []v1alpha1.DecoratorControllerAttachmentRule{{ResourceRule: v1alpha1.ResourceRule{APIVersion: av, Resource: s.Child},
		UpdateStrategy: &v1alpha1.DecoratorControllerAttachmentUpdateStrategy{Method: v1alpha1.ChildUpdateInPlace}}}
	if s.Variant != "no-hooks" {
		dc.Spec.Hooks = &v1alpha1.DecoratorControllerHooks{Sync: s.webhook(name, "sync")}
		if s.Variant == "customize" {
			dc.Spec.Hooks.Customize = s.webhook(name, "customize")
		}
		if s.Variant == "customize-related" {
			dc.Spec.Hooks.Customize = s.webhook(name, "customize-gadgets")
		}
		if s.Variant == "finalize" {
			dc.Spec.Hooks.Finalize = s.webhook(name, "finalize")
		}
	}
	if s.Variant == "resync" {
		r := int32(3600)
		dc.Spec.ResyncPeriodSeconds = &r
	}
	return dc
}

func pollFor(d time.Duration, f func() bool) bool {
	deadline := time.Now().Add(d)
	for {
		if f() {
			return true
		}
		if time.Now().After(deadline) {
			return false
		}
		time.Sleep(time.Millisecond)
	}
}

// PropC20: hosted controllers follow their CompositeController/DecoratorController objects.
func PropC20(c *vs.Case, kind string, env *C20Env, drv C20Driver) error {
	names := []string{"alpha", "beta"}[:1+c.Int(2)]
	model := map[string]*c20Spec{}    // name -> spec that must be running (nil / absent: nothing)
	objects := map[string]*c20Spec{}  // name -> spec of the stored controller object
	instances := map[string]string{}  // name -> instance identity as of the last check
	stopped := map[string]time.Time{} // url prefix -> when that instance had to be gone
	history := map[string][]c20Spec{} // name -> valid specs it has had
	var log []string
	c.Describe(func() any { return map[string]any{"kind": kind, "names": names, "events": log} })
	version := 0
	probeN := 0
	ctx := context.Background()
	put := func(name string, s c20Spec, labels map[string]string, create bool) error {
		var obj client.Object
		if kind == "composite" {
			obj = s.CompositeObj(name, labels)
		} else {
			obj = s.DecoratorObj(name, labels)
		}
		if create {
			obj.SetGeneration(1) // what the API server does (the fake client keeps what it is given)
			return env.K8s.Create(ctx, obj)
		}
		var cur client.Object
		if kind == "composite" {
			cur = &v1alpha1.CompositeController{}
		} else {
			cur = &v1alpha1.DecoratorController{}
		}
		if err := env.K8s.Get(ctx, client.ObjectKey{Name: name}, cur); err != nil {
			return err
		}
		obj.SetResourceVersion(cur.GetResourceVersion())
		obj.SetGeneration(cur.GetGeneration())
		if len(labels) == 0 {
			obj.SetGeneration(cur.GetGeneration() + 1) // spec updates bump the generation, metadata-only ones do not
		}
		return env.K8s.Update(ctx, obj)
	}
	// parents that exist before any controller starts
	env.W.Sim.ExtCreate("things", map[string]any{"apiVersion": "ex.io/v1", "kind": "Thing", "metadata": map[string]any{"name": "pre", "namespace": "ns1"}, "spec": map[string]any{}})
	env.W.Sim.ExtCreate("plains", map[string]any{"apiVersion": "ex.io/v1", "kind": "Plain", "metadata": map[string]any{"name": "pre", "namespace": "ns1"}, "spec": map[string]any{}})
	nontrivial := false
	nEvents := 2 + c.Int(7)
	// gate: while armed, LIST requests for gadgets (the related resource) hang in the API server
	var gateMu sync.Mutex
	var gate chan struct{}
	getGate := func() chan struct{} { gateMu.Lock(); defer gateMu.Unlock(); return gate }
	setGate := func(g chan struct{}) { gateMu.Lock(); gate = g; gateMu.Unlock() }
	var gateWaiters int32
	gatedName := ""
	gateOnHook := false // false: the related LIST hangs; true: the customize webhook hangs
	env.W.Sim.Before = func(r *vs.Request) *vs.Fault {
		if g := getGate(); g != nil && !gateOnHook && r.Verb == "list" && r.Def.Resource == "gadgets" {
			atomic.AddInt32(&gateWaiters, 1)
			<-g
		}
		return nil
	}
	env.Router.mu.Lock()
	env.Router.HoldCustomize = func() {
		if g := getGate(); g != nil && gateOnHook {
			atomic.AddInt32(&gateWaiters, 1)
			<-g
		}
	}
	env.Router.mu.Unlock()
	defer func() {
		if g := getGate(); g != nil {
			close(g)
			setGate(nil)
		}
		env.W.Sim.Before = nil
		env.Router.mu.Lock()
		env.Router.HoldCustomize = nil
		env.Router.mu.Unlock()
	}()
	for ev := 0; ev < nEvents; ev++ {
		name := names[c.Int(len(names))]
		forcedStop := false
		if gatedName != "" {
			// the controller whose worker hangs in the related informer's first LIST is stopped right now
			name = gatedName
			forcedStop = true
		}
		cur := objects[name]
		var what string
		switch {
		case cur == nil:
			version++
			s := genC20Spec(c, version)
			if err := put(name, s, nil, true); err != nil {
				return fmt.Errorf("harness: %v", err)
			}
			objects[name] = &s
			what = fmt.Sprintf("create %s v%d (%s)", name, s.Version, s.Variant)
		default:
			op := 0
			if forcedStop {
				op = []int{0, 2}[c.Int(2)]
			} else {
				op = c.Weighted(3, 2, 2, 1, 1)
			}
			switch op {
			case 4:
				// deleted and re-created with another spec before metacontroller looks again (kubectl replace --force):
				// the new object starts at generation 1 like the old one did
				var old client.Object
				if kind == "composite" {
					old = &v1alpha1.CompositeController{ObjectMeta: metav1.ObjectMeta{Name: name}}
				} else {
					old = &v1alpha1.DecoratorController{ObjectMeta: metav1.ObjectMeta{Name: name}}
				}
				if err := env.K8s.Delete(ctx, old); err != nil {
					return fmt.Errorf("harness: %v", err)
				}
				version++
				s := genC20Spec(c, version)
				if err := put(name, s, nil, true); err != nil {
					return fmt.Errorf("harness: %v", err)
				}
				objects[name] = &s
				what = fmt.Sprintf("delete %s and re-create it as v%d (%s) in one go", name, s.Version, s.Variant)
				c.Class("replaced-in-one-go")
				if model[name] != nil {
					nontrivial = true
				}
			case 3:
				// back to a spec this name has run before (same webhook URL: metrics collectors, ETag caches are re-created)
				hist := history[name]
				if len(hist) == 0 {
					continue
				}
				s := hist[c.Int(len(hist))]
				if s.Version == cur.Version {
					continue
				}
				if err := put(name, s, nil, false); err != nil {
					return fmt.Errorf("harness: %v", err)
				}
				objects[name] = &s
				what = fmt.Sprintf("update spec of %s back to v%d (%s)", name, s.Version, s.Variant)
				if model[name] != nil {
					nontrivial = true
				}
				// an instance with this URL was stopped earlier; it is legitimately alive again
				delete(stopped, s.urlPrefix(name))
			case 0:
				version++
				s := genC20Spec(c, version)
				if err := put(name, s, nil, false); err != nil {
					return fmt.Errorf("harness: %v", err)
				}
				objects[name] = &s
				what = fmt.Sprintf("update spec of %s to v%d (%s)", name, s.Version, s.Variant)
				if model[name] != nil {
					nontrivial = true
				}
			case 1:
				if err := put(name, *cur, map[string]string{"touched": fmt.Sprint(ev)}, false); err != nil {
					return fmt.Errorf("harness: %v", err)
				}
				what = fmt.Sprintf("metadata-only update of %s", name)
			default:
				var obj client.Object
				if kind == "composite" {
					obj = &v1alpha1.CompositeController{ObjectMeta: metav1.ObjectMeta{Name: name}}
				} else {
					obj = &v1alpha1.DecoratorController{ObjectMeta: metav1.ObjectMeta{Name: name}}
				}
				if err := env.K8s.Delete(ctx, obj); err != nil {
					return fmt.Errorf("harness: %v", err)
				}
				delete(objects, name)
				what = "delete " + name
				if model[name] != nil {
					nontrivial = true
				}
			}
		}
		// the model: what must be running after this event is reconciled
		prev := model[name]
		obj := objects[name]
		if obj != nil && obj.Valid {
			seen := false
			for _, h := range history[name] {
				if h.Version == obj.Version {
					seen = true
				}
			}
			if !seen {
				history[name] = append(history[name], *obj)
			}
		}
		startable := obj != nil && obj.Valid && !(kind == "composite" && obj.Parent == "plains")
		switch {
		case obj == nil:
			delete(model, name)
		case prev != nil && prev.Version == obj.Version:
			// unchanged spec: same instance
		case startable:
			model[name] = obj
		default:
			delete(model, name)
		}
		if prev != nil && (model[name] == nil || model[name].Version != prev.Version) {
			stopped[prev.urlPrefix(name)] = time.Time{} // stamped after Reconcile returns
		}
		if gatedName == "" && kind == "composite" && model[name] != nil && model[name].Variant == "customize-related" && (prev == nil || prev.Version != model[name].Version) && ev+1 < nEvents && c.Bool() {
			gateOnHook = c.Bool()
			setGate(make(chan struct{}))
			atomic.StoreInt32(&gateWaiters, 0)
			gatedName = name
			if gateOnHook {
				what += " [customize webhook hangs]"
				c.Class("stop-during-customize-call")
			} else {
				what += " [related LIST hangs]"
				c.Class("stop-during-related-informer-sync")
			}
		} else if forcedStop {
			gatedName = ""
		}
		// reconcile
		var recErr error
		panicked := ""
		if forcedStop && gateOnHook {
			// Stop() waits for the worker, and the worker waits for its webhook: the webhook answers
			// a moment after the stop has begun
			if g := getGate(); g != nil {
				setGate(nil)
				go func() {
					time.Sleep(30 * time.Millisecond)
					close(g)
				}()
				nontrivial = true
			}
		}
		recDone := make(chan struct{})
		go func() {
			defer close(recDone)
			defer func() {
				if p := recover(); p != nil {
					panicked = fmt.Sprintf("%v\n%s", p, trimStack(stackNow()))
				}
			}()
			recErr = drv.Reconcile(name)
		}()
		select {
		case <-recDone:
		case <-time.After(30 * time.Second):
			// Reconcile runs on metacontroller's single reconcile worker: one that never returns means the old
			// instance is never stopped and every later controller event is stuck behind it
			if g := getGate(); g != nil {
				close(g)
				setGate(nil)
			}
			return vs.Violf("C20/reconcile-wedged", "%s: Reconcile did not return within 30 s (stopping the old instance hangs)", what)
		}
		log = append(log, fmt.Sprintf("%s -> reconcile err=%v", what, recErr))

		if panicked != "" {
			v := vs.Violf("C20/reconcile-panicked", "%s: Reconcile panicked (a hosted-controller configuration must never take the process down): %s", what, panicked)
			return c.Known(v)
		}
		now := time.Now()
		for k, t := range stopped {
			if t.IsZero() {
				stopped[k] = now
			}
		}
		if forcedStop && getGate() != nil {
			close(getGate()) // the API server answers again
			setGate(nil)
			nontrivial = true
		}
		if gatedName != "" {
			// let the worker reach the hanging LIST, then go straight to the stopping event
			blocked := pollFor(3*time.Second, func() bool { return atomic.LoadInt32(&gateWaiters) > 0 })
			log = append(log, fmt.Sprintf("worker blocked in related informer sync: %v", blocked))
			continue
		}
		// 1. the set of hosted controllers equals the model
		running := drv.Running()
		for n, s := range model {
			inst, ok := running[n]
			if !ok {
				return vs.Violf("C20/controller-not-running", "after %q: %s must be running with spec v%d (%s) but no hosted controller exists (reconcile error: %v)", what, n, s.Version, s.Variant, recErr)
			}
			if !strings.Contains(inst[1], s.urlPrefix(n)) && s.Variant != "service-ok" {
				return vs.Violf("C20/controller-runs-old-spec", "after %q: the hosted controller %s does not run spec v%d (its spec: %s)", what, n, s.Version, inst[1])
			}
			if prev != nil && n == name && prev.Version == s.Version && instances[n] != "" && instances[n] != inst[0] {
				return vs.Violf("C20/restarted-without-spec-change", "after %q: %s was restarted although its spec did not change", what, n)
			}
			instances[n] = inst[0]
		}
		for n, inst := range running {
			if model[n] == nil {
				return vs.Violf("C20/controller-left-running", "after %q: %s must not be running (object deleted or configuration cannot start) but a hosted controller still exists with spec %s", what, n, inst[1])
			}
		}
		// 2. informer subscriptions are exactly what the running controllers need
		wantSubs := map[string]int{}
		for _, s := range model {
			wantSubs[s.Parent]++
			wantSubs[s.Child]++
			if s.Variant == "customize-related" && s.Parent == "things" {
				wantSubs["gadgets"]++ // created on the first sync of a parent; parents exist
			}
		}
		if !pollFor(5*time.Second, func() bool {
			got := env.Factory.VerifRefCounts()
			for _, r := range []string{"things", "plains", "widgets", "configmaps", "gadgets"} {
				d := env.W.Sim.Def(r)
				if got[r+"."+d.APIVersion()] != wantSubs[r] {
					return false
				}
				w := 0
				if wantSubs[r] > 0 {
					w = 1
				}
				if env.W.Sim.OpenWatches()[r] != w {
					return false
				}
			}
			return true
		}) {
			return vs.Violf("C20/informer-subscriptions-leaked", "after %q: running controllers need subscriptions %v but the factory holds %v and the API server sees watch streams %v", what, wantSubs, env.Factory.VerifRefCounts(), env.W.Sim.OpenWatches())
		}
		// 3. every running controller reacts to a new parent with its current hook; stopped ones stay silent
		probeN++
		probe := fmt.Sprintf("probe%d", probeN)
		env.W.Sim.ExtCreate("things", map[string]any{"apiVersion": "ex.io/v1", "kind": "Thing", "metadata": map[string]any{"name": probe, "namespace": "ns1"}, "spec": map[string]any{}})
		mnames := make([]string, 0, len(model))
		for n := range model {
			mnames = append(mnames, n)
		}
		sort.Strings(mnames)
		for _, n := range mnames {
			s := model[n]
			if s.Parent != "things" {
				continue
			}
			prefix := s.urlPrefix(n)
			if s.Variant == "service-ok" {
				prefix = fmt.Sprintf("http://hook.invalid:80/%s/v%d/", n, s.Version)
			}
			if !pollFor(5*time.Second, func() bool { return env.Router.CallsAbout(prefix, probe) > 0 }) {
				return vs.Violf("C20/running-controller-deaf", "after %q: %s runs spec v%d but its hook %s was never called for the new parent %s", what, n, s.Version, prefix, probe)
			}
		}
		// 3b. a controller whose customize hook selects gadgets wakes its parents when a gadget changes
		for _, n := range mnames {
			s := model[n]
			if s.Variant != "customize-related" || s.Parent != "things" {
				continue
			}
			prefix := s.urlPrefix(n)
			since := time.Now()
			probeN++
			env.W.Sim.ExtCreate("gadgets", map[string]any{"metadata": map[string]any{"name": fmt.Sprintf("relprobe%d", probeN), "namespace": "ns1"}})
			if !pollFor(5*time.Second, func() bool { return env.Router.CallsTo(prefix+"sync", since) > 0 }) {
				return vs.Violf("C20/running-controller-deaf", "after %q: %s runs spec v%d, whose customize rules select gadgets, but a new gadget did not make it sync any parent", what, n, s.Version)
			}
			c.Class("related-change-wakes-running-controller")
		}
		if len(mnames) == 0 {
			time.Sleep(20 * time.Millisecond)
		}
		for prefix, since := range stopped {
			if n := env.Router.CallsTo(prefix, since); n > 0 {
				return vs.Violf("C20/stopped-controller-still-acts", "after %q: the instance with hook %s was stopped but made %d hook call(s) afterwards", what, prefix, n)
			}
		}
	}
	// teardown: delete everything, nothing may stay behind
	for _, n := range names {
		if objects[n] == nil {
			continue
		}
		var obj client.Object
		if kind == "composite" {
			obj = &v1alpha1.CompositeController{ObjectMeta: metav1.ObjectMeta{Name: n}}
		} else {
			obj = &v1alpha1.DecoratorController{ObjectMeta: metav1.ObjectMeta{Name: n}}
		}
		_ = env.K8s.Delete(ctx, obj)
		func() {
			defer func() { _ = recover() }()
			_ = drv.Reconcile(n)
		}()
	}
	if !pollFor(5*time.Second, func() bool {
		for _, v := range env.W.Sim.OpenWatches() {
			if v != 0 {
				return false
			}
		}
		return len(drv.Running()) == 0
	}) {
		return vs.Violf("C20/informer-subscriptions-leaked", "after deleting every controller object: still running %v, watch streams %v", drv.Running(), env.W.Sim.OpenWatches())
	}
	if nontrivial {
		c.NonTrivial()
	}
	return nil
}
