package verifworld

import (
	"encoding/json"
	"fmt"
	"net/http"
	"strings"

	vs "metacontroller/pkg/internal/verifsim"
)

// hostileValues: every JSON type plus boundary values, as raw JSON.
var hostileValues = []string{
	`null`, `true`, `false`, `0`, `-1`, `1e308`, `-1e308`, `123456789012345678901234567890`, `0.000001`,
	`""`, `"str"`, `[]`, `[null]`, `[1,"a",null,{}]`, `{}`, `{"a":null}`, `{"a":{"b":{"c":[{"d":null}]}}}`,
	`[{"name":"a"},null]`, `[{"name":"web","port":80},null,{"name":"adm","port":8080}]`, `[null,{"port":80}]`, `[{"name":null}]`, `[{"name":{"x":1}},{"name":["y"]}]`,
	`[[[]]]`, `{"":""}`, `"\u0000"`, `[{"type":"Updated"}]`, `[{"type":1}]`, `{"type":"Updated","status":"True"}`,
	// right JSON types, unusable values: selectors that cannot be converted, names and versions that cannot exist
	`[{"key":"rel","operator":"Within","values":["a"]}]`, `[{"key":"rel","operator":"In","values":[]}]`, `[{"key":"bad key!","operator":"Exists"}]`,
	`{"bad key!":"x"}`, `{"k":"bad value!"}`, `"Bad_Name!"`, `"a/b/c"`, `["Bad_Name!",""]`,
}

// rawBodies: responses that are not even the right shape.
var rawBodies = []string{``, `null`, `[]`, `{`, `"x"`, `123`, `{"children":`, "\xff\xfe", `{"children":[]}{"children":[]}`, `{"children":[],"children":[null]}`,
	`{"status":{"conditions":[null]},"children":[]}`, `{"children":[null]}`, `{"attachments":[null]}`, `{"children":[null,null]}`,
	`{"children":[{"apiVersion":"ex.io/v1","kind":"Widget","metadata":{"name":"w0","labels":{"app":"p1"}}},null]}`}

// paths inside a response that get replaced (dot separated; a number indexes a list).
func mutationPaths(kind string) []string {
	key := "children"
	if kind == "decorator" {
		key = "attachments"
	}
	ps := []string{"status", key, "resyncAfterSeconds", "finalized", "status.conditions", "status.observedGeneration",
		key + ".0", key + ".0.metadata", key + ".0.metadata.labels", key + ".0.metadata.name", key + ".0.metadata.namespace",
		key + ".0.metadata.annotations", key + ".0.metadata.ownerReferences", key + ".0.metadata.finalizers", key + ".0.apiVersion", key + ".0.kind",
		key + ".0.spec", key + ".0.spec.ports", key + ".0.spec.v", key + ".0.spec.nested", key + ".0.spec.args", key + ".0.data", key + ".0.data.v", key + ".0.status", key + ".1", key + ".0.metadata.labels.app", key + ".0.metadata.generation", key + ".0.metadata.uid",
		"unknownField"}
	if kind == "decorator" {
		ps = append(ps, "labels", "annotations", "labels.decorated", "annotations.x")
	}
	return ps
}

// targetedValues: type-correct but unusable values for one response field.
func targetedValues(path string) []string {
	switch {
	case strings.HasSuffix(path, ".matchExpressions"):
		return []string{`[{"key":"rel","operator":"Within","values":["a"]}]`, `[{"key":"rel","operator":"In","values":[]}]`, `[{"key":"bad key!","operator":"Exists"}]`, `[{"key":"rel","operator":"Exists","values":["x"]}]`, `[{"key":"","operator":"In","values":["x"]}]`}
	case strings.HasSuffix(path, ".labelSelector"):
		return []string{`{"matchExpressions":[{"key":"rel","operator":"Within","values":["a"]}]}`, `{"matchExpressions":[{"key":"rel","operator":"NotIn","values":[]}]}`, `{"matchLabels":{"bad key!":"x"}}`, `{"matchLabels":{"k":"bad value!"}}`}
	case strings.HasSuffix(path, ".matchLabels"), strings.HasSuffix(path, ".labels"), strings.HasSuffix(path, ".annotations"), path == "labels", path == "annotations":
		return []string{`{"bad key!":"x"}`, `{"k":"bad value!"}`, `{"":"x"}`, `{"a/b/c":"x"}`}
	case strings.HasSuffix(path, ".names"):
		return []string{`["Bad_Name!"]`, `[""]`, `["a","a"]`}
	case strings.HasSuffix(path, ".name"), strings.HasSuffix(path, ".namespace"):
		return []string{`"Bad_Name!"`, `""`, `"a/b"`, `"` + strings.Repeat("x", 300) + `"`}
	case strings.HasSuffix(path, ".apiVersion"):
		return []string{`"a/b/c"`, `""`, `"/v1"`, `"nosuch.io/v9"`}
	case strings.HasSuffix(path, ".resource"), strings.HasSuffix(path, ".kind"):
		return []string{`"nosuch"`, `""`, `"Widget/status"`}
	case strings.HasSuffix(path, ".ownerReferences"):
		return []string{`[{"apiVersion":"v1","kind":"ConfigMap","name":"x","uid":"u","controller":true}]`, `[{}]`, `[{"uid":""}]`}
	case strings.HasSuffix(path, ".finalizers"):
		return []string{`["example.com/hold"]`, `[""]`}
	case path == "resyncAfterSeconds":
		return []string{`-5`, `0.0001`, `1e12`}
	}
	return nil
}

func setRaw(doc any, path []string, raw string, del bool) (any, bool) {
	var val any
	if !del {
		dec := json.NewDecoder(strings.NewReader(raw))
		dec.UseNumber()
		if err := dec.Decode(&val); err != nil {
			return doc, false
		}
	}
	if len(path) == 0 {
		return val, true
	}
	switch t := doc.(type) {
	case map[string]any:
		if len(path) == 1 {
			if del {
				delete(t, path[0])
			} else {
				t[path[0]] = val
			}
			return t, true
		}
		sub, ok := t[path[0]]
		if !ok {
			sub = map[string]any{}
		}
		n, ok2 := setRaw(sub, path[1:], raw, del)
		t[path[0]] = n
		return t, ok2
	case []any:
		var idx int
		if _, err := fmt.Sscan(path[0], &idx); err != nil || idx < 0 {
			return doc, false
		}
		for len(t) <= idx {
			if len(t) == 0 {
				return doc, false
			}
			t = append(t, vs.DeepCopyAny(t[0]))
		}
		if len(path) == 1 {
			if del {
				t = append(t[:idx], t[idx+1:]...)
			} else {
				t[idx] = val
			}
			return t, true
		}
		n, ok := setRaw(t[idx], path[1:], raw, del)
		t[idx] = n
		return t, ok
	default:
		return doc, false
	}
}

// PropC13: no hook response, however malformed, can crash metacontroller or cause writes.
func PropC13(c *vs.Case, f Factory, kind string) error {
	scn := GenScn(c, GenOpts{Kind: kind, AllowRolling: kind == "composite", AllowFinalize: true})
	scn.Cfg.SSA = false
	scn.Prog.Ordered = false
	scn.Cfg.Strict = c.Prob(1, 3)
	scn.Cfg.CustomizeHook = c.Prob(1, 4)
	if scn.Prog.StatusMode == 0 && c.Bool() {
		scn.Prog.StatusMode = 3
	}
	if kind == "decorator" {
		v := "yes"
		scn.Prog.Labels = map[string]*string{"decorated": &v}
		scn.Prog.Annotations = map[string]*string{"x": &v}
		scn.Prog.DecStatus = c.Int(3)
	}
	if scn.Cfg.CustomizeHook {
		scn.Prog.Related = []map[string]any{{"apiVersion": "v1", "resource": "configmaps", "labelSelector": map[string]any{"matchLabels": map[string]any{"rel": "yes"}}}}
	}
	env, err := NewEnv(scn, f)
	if err != nil {
		return fmt.Errorf("harness: %v", err)
	}
	for i := 0; i < 2; i++ {
		if t := env.SyncFresh(); t.Panic != "" {
			return vs.Violf("C13/panic", "panic during setup with a valid hook: %s", t.Panic)
		}
	}
	// which hook is attacked
	target := c.Weighted(5, 2, 1)
	finalize := target == 1 && scn.Cfg.FinalizeHook
	if finalize {
		env.W.Sim.ExtDelete(scn.Cfg.ParentResource, scn.ParentNS(), scn.ParentName(), "")
	}
	customize := target == 2 && scn.Cfg.CustomizeHook
	mode := c.Weighted(8, 2, 1, 1)
	code := 200
	var body string
	desc := ""
	valid := ""
	onlySuperseded := false
	servedMalformed := false
	claimedLength := int64(0)
	servedCustomize := false
	h := func(_ *http.Request, reqBody []byte) HookResponse {
		req, _ := vs.DecodeJSON(reqBody)
		var resp map[string]any
		if kind == "decorator" {
			resp = scn.Prog.EvalDecorator(env.W.Sim, req)
		} else {
			resp = scn.Prog.EvalComposite(env.W.Sim, req)
		}
		vb, _ := json.Marshal(resp)
		valid = string(vb)
		if onlySuperseded {
			// only the calls made for superseded revisions get the malformed answer
			p, _ := req["parent"].(map[string]any)
			if v, _ := getPath(p, "spec.template.v"); v == "v3" {
				return HookResponse{Code: 200, Body: vb}
			}
		}
		servedMalformed = true
		return HookResponse{Code: code, Body: []byte(body), Header: http.Header{"Retry-After": []string{"1"}}, ContentLength: claimedLength}
	}
	validFor := func(which string) map[string]any {
		// compute the valid answer once, from a dry evaluation on the current store
		parent := env.Parent()
		owned := env.OwnedChildren()
		req := map[string]any{"parent": parent, "object": parent, "finalizing": finalize,
			"children": WireChildren(env.W.Sim, env.ChildResources(), scn.ParentNS(), owned), "attachments": WireChildren(env.W.Sim, env.ChildResources(), scn.ParentNS(), owned)}
		if which == "customize" {
			return scn.Prog.EvalCustomize(req)
		}
		if kind == "decorator" {
			return scn.Prog.EvalDecorator(env.W.Sim, req)
		}
		return scn.Prog.EvalComposite(env.W.Sim, req)
	}
	which := "sync"
	if customize {
		which = "customize"
	}
	base := validFor(which)
	bb, _ := json.Marshal(base)
	mutatedPath := ""
	switch mode {
	case 0: // one field replaced by a hostile value
		paths := mutationPaths(kind)
		if customize {
			paths = []string{"relatedResources", "relatedResources.0", "relatedResources.0.apiVersion", "relatedResources.0.resource", "relatedResources.0.labelSelector",
				"relatedResources.0.namespace", "relatedResources.0.names", "relatedResources.0.labelSelector.matchLabels", "relatedResources.0.labelSelector.matchExpressions", "version"}
		}
		p := paths[c.Int(len(paths))]
		v := hostileValues[c.Int(len(hostileValues))]
		if tv := targetedValues(p); len(tv) > 0 && c.Bool() {
			// values of the right JSON type for this very field that still cannot be used
			v = tv[c.Int(len(tv))]
			c.Class("targeted-value")
		}
		var doc any
		_ = json.Unmarshal(bb, &doc)
		nd, ok := setRaw(doc, strings.Split(p, "."), v, false)
		if !ok {
			nd = doc
		}
		nb, _ := json.Marshal(nd)
		body = string(nb)
		desc = fmt.Sprintf("%s := %s", p, v)
		mutatedPath = p
		c.Class("mutate-field")
	case 1: // a field removed
		paths := mutationPaths(kind)
		p := paths[c.Int(len(paths))]
		var doc any
		_ = json.Unmarshal(bb, &doc)
		nd, _ := setRaw(doc, strings.Split(p, "."), "", true)
		nb, _ := json.Marshal(nd)
		body = string(nb)
		desc = "delete " + p
		c.Class("delete-field")
	case 2: // raw body
		body = rawBodies[c.Int(len(rawBodies))]
		desc = fmt.Sprintf("raw body %q", body)
		c.Class("raw-body")
	default: // odd status code, with the valid body or with a long error page
		body = string(bb)
		code = []int{201, 204, 301, 304, 400, 404, 412, 429, 500, 503, 999}[c.Int(11)]
		desc = fmt.Sprintf("valid body with HTTP %d", code)
		if c.Prob(1, 3) {
			// long bodies whose tail is not ASCII: whatever quotes or abbreviates them must cope
			pages := []string{
				strings.Repeat("x", 511) + "\u20ac",
				strings.Repeat("x", 512) + "\x80",
				strings.Repeat("\xbf", 600),
				strings.Repeat("e", 1023) + "\u20ac" + "\xe2\x82",
				strings.Repeat("<html>", 3000),
				strings.Repeat("x", 255) + "\u00e9",
				strings.Repeat("x", 1024) + "\xf0\x9f\x98",
			}
			k := c.Int(len(pages))
			body = pages[k]
			desc = fmt.Sprintf("HTTP %d with long error page #%d (%d bytes)", code, k, len(body))
			c.Class("long-error-page")
		}
		c.Class("status-code")
	}
	if c.Prob(1, 8) {
		// the Content-Length the answer claims is the hook's to choose as well: absurdly large, wrong, or "unknown"
		claimedLength = []int64{1 << 62, 9223372036854775807, -1, 1, int64(len(body)) + 100}[c.Int(5)]
		desc += fmt.Sprintf(" [claimed Content-Length %d]", claimedLength)
		c.Class("bogus-content-length")
	}
	c.Describe(func() any {
		return map[string]any{"scenario": scn, "attacked": map[string]any{"hook": which, "finalizing": finalize}, "mutation": desc, "body": body, "code": code}
	})
	rollingKind := false
	for _, ch := range scn.Cfg.Children {
		if strings.HasPrefix(ch.Method, "Rolling") {
			rollingKind = true
		}
	}
	if kind == "composite" && rollingKind && !finalize && c.Bool() {
		// a rollout is under way when the malformed answer arrives: it is then given for every live revision
		env.W.Sim.ExtUpdate(scn.Cfg.ParentResource, scn.ParentNS(), scn.ParentName(), func(o map[string]any) {
			o["spec"].(map[string]any)["template"].(map[string]any)["v"] = "v3"
		})
		if t0 := env.SyncFresh(); t0.Panic != "" {
			return vs.Violf("C13/panic", "panic in a sync with valid hook answers while starting a rollout: %s", t0.Panic)
		}
		c.Class("rollout-in-progress")
		if !customize && c.Bool() {
			onlySuperseded = true
			c.Class("malformed-answer-for-superseded-revisions-only")
		}
	}
	if customize {
		env.W.Hooks.Handle(CustomizeURL, func(_ *http.Request, _ []byte) HookResponse {
			servedCustomize = true
			return HookResponse{Code: code, Body: []byte(body), ContentLength: claimedLength}
		})
		// the customize answer is cached per parent generation: bump it so the hook is asked again
		env.W.Sim.ExtUpdate(scn.Cfg.ParentResource, scn.ParentNS(), scn.ParentName(), func(o map[string]any) {
			o["spec"].(map[string]any)["other"] = "bumped"
		})
	} else {
		env.W.Hooks.Handle(SyncURL, h)
		env.W.Hooks.Handle(FinalizeURL, h)
	}
	env.W.SyncAll()
	t := env.Sync()
	_ = valid
	if body != string(bb) || code != 200 {
		c.NonTrivial()
	}
	if t.Panic != "" {
		v := vs.Violf("C13/panic", "hook %s answered %s and the sync panicked:\n%s", which, desc, t.Panic)
		if strings.Contains(t.Panic, "api/v2.UniformObjectMap.Insert") || strings.Contains(t.Panic, "api/v1.RelativeObjectMap.Insert") {
			v.Sig = "C13/panic-null-child"
		}
		return c.Known(v)
	}
	if t.Err != nil {
		c.Class("rejected")
		msg := t.Err.Error()
		if !strings.Contains(msg, "can't reconcile children") && !strings.Contains(msg, "can't update status") && !strings.Contains(msg, "can't update ") {
			for _, r := range t.Reqs {
				if isChildWrite(env, r) {
					return withTrace(vs.Violf("C13/write-after-rejected-response", "hook %s answered %s; the sync rejected it (%v) but still issued %s", which, desc, t.Err, r.String()), t)
				}
			}
		}
	} else {
		c.Class("accepted")
		// whatever the hook type: an answer with another status than 200 (429 aside, which asks for a later retry) is no
		// answer at all (C19) - a sync that swallows it carries on with data the hook never gave
		if customize && code != 200 && code != 429 && servedCustomize {
			return withTrace(vs.Violf("C13/rejected-customize-answer-ignored", "the customize hook answered HTTP %d (%s); the sync reported no error and carried on as if there were no related objects", code, desc), t)
		}
		// strict decoding: a field the response type does not know makes the whole answer unusable
		if scn.Cfg.Strict && !customize && mutatedPath == "unknownField" && servedMalformed {
			return withTrace(vs.Violf("C13/strict-accepts-unknown-field", "strict response decoding is configured and hook %s answered with an unknown top-level field (%s), yet the sync accepted the answer", which, desc), t)
		}
	}
	if customize {
		// the (possibly cached) customize answer is also consulted from the related-object event
		// handlers, which run on informer goroutines nobody recovers for
		if sink, ok := env.Ctl.(EventSink); ok {
			rel := map[string]any{"apiVersion": "v1", "kind": "ConfigMap", "metadata": map[string]any{"name": "rel-ev", "namespace": "ns1", "labels": map[string]any{"rel": "yes"}, "resourceVersion": "1", "uid": "uid-rel-ev"}}
			rel2 := vs.CopyMap(rel)
			rel2["metadata"].(map[string]any)["resourceVersion"] = "2"
			if p := recoverCall(func() {
				sink.RelatedAdd(u(rel))
				sink.RelatedUpdate(u(rel), u(rel2))
				sink.RelatedDelete(u(rel2))
			}); p != "" {
				return vs.Violf("C13/panic", "hook customize answered %s; a later related-object event panicked its handler:\n%s", desc, p)
			}
			env.W.Queue.Take()
			env.W.Hooks.Take()
		}
	}
	// one more sync with the valid hook: the process must still be usable
	scn.Prog.Install(env.W, kind)
	if t2 := env.SyncFresh(); t2.Panic != "" {
		return vs.Violf("C13/panic", "panic in the sync after a malformed answer (%s): %s", desc, t2.Panic)
	}
	if v := env.SharedStateViolation(); v != nil {
		return v
	}
	return nil
}

// recoverCall runs f and returns the panic (with a trimmed stack) it raised, if any.
func recoverCall(f func()) (panicked string) {
	defer func() {
		if p := recover(); p != nil {
			panicked = fmt.Sprintf("%v\n%s", p, trimStack(stackNow()))
		}
	}()
	f()
	return ""
}
