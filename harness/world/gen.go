package verifworld

import (
	"fmt"
	"sort"
	"strings"

	vs "metacontroller/pkg/internal/verifsim"
)

// Methods a child update strategy can take (incl. unset and unknown).
var AllMethods = []string{"", "OnDelete", "Recreate", "InPlace", "RollingRecreate", "RollingInPlace"}

// GenOpts steers scenario generation.
type GenOpts struct {
	Kind          string // composite | decorator
	AllowSSA      bool
	AllowRolling  bool
	AllowUnknown  bool // unknown update method strings
	AllowFinalize bool
	ForceMethod   string // non-empty: every child uses this method
	MaxChildKinds int
	ClusterParent int // 0 random, 1 never, 2 always
	// KeepClusterRolling keeps rolling strategies under cluster-scoped parents.
	KeepClusterRolling bool
}

// Scn is a generated scenario: configuration, hook program and parent.
type Scn struct {
	Cfg    CtlConfig      `json:"config"`
	Prog   HookProgram    `json:"program"`
	Parent map[string]any `json:"parent"`
	// SelLabels satisfy the parent's selector (empty under generateSelector).
	SelLabels map[string]string `json:"selectorLabels"`
	// SwitchToSSA (C12): after the setup syncs (dynamic apply) the controller is restarted with
	// server-side apply: the faulted sync migrates children that still carry the last-applied annotation.
	SwitchToSSA bool `json:"switchToSSA,omitempty"`
	// DeleteParent (C12): 1 = the user deletes the parent before the faulted sync,
	// 2 = and one finalize sync has already run (the faulted sync removes the finalizer).
	DeleteParent int `json:"deleteParent,omitempty"`
}

func (s *Scn) ParentNS() string   { return metaStr(s.Parent, "namespace") }
func (s *Scn) ParentName() string { return metaStr(s.Parent, "name") }

var childPool = []string{"configmaps", "widgets", "gadgets", "cwidgets", "xgadgets"}

// GenScn draws a controller configuration, a hook program and a parent.
func GenScn(c *vs.Case, o GenOpts) *Scn {
	s := &Scn{}
	cfg := &s.Cfg
	cfg.Kind = o.Kind
	if cfg.Kind == "" {
		cfg.Kind = "composite"
	}
	cfg.Name = "ctl"
	cfg.SyncHook = true
	cluster := false
	switch o.ClusterParent {
	case 0:
		cluster = c.Prob(1, 4)
	case 2:
		cluster = true
	}
	if cluster {
		cfg.ParentResource = "cthings"
	} else {
		cfg.ParentResource = "things"
	}
	if cfg.Kind == "decorator" && !cluster && c.Prob(1, 4) {
		cfg.ParentResource = "plains"
	}
	maxKinds := o.MaxChildKinds
	if maxKinds == 0 {
		maxKinds = 2
	}
	nk := 1 + c.Int(maxKinds)
	pool := []string{"configmaps", "widgets", "gadgets", "xgadgets"}
	if cluster {
		pool = childPool
	}
	used := map[string]bool{}
	for i := 0; i < nk; i++ {
		r := pool[c.Int(len(pool))]
		if used[r] {
			continue
		}
		used[r] = true
		ch := ChildCfg{Resource: r}
		switch {
		case o.ForceMethod != "":
			ch.Method = o.ForceMethod
		default:
			ms := []string{"", "OnDelete", "Recreate", "InPlace"}
			if o.AllowRolling {
				// decorators accept the rolling method names too (and treat them like their plain counterparts)
				ms = AllMethods
			}
			if o.AllowUnknown {
				ms = append(append([]string{}, ms...), "Bogus")
			}
			ch.Method = ms[c.Int(len(ms))]
			if ch.Method == "" && c.Bool() {
				ch.NoStrat = true
			}
		}
		if cluster && strings.HasPrefix(ch.Method, "Rolling") && !o.KeepClusterRolling {
			// cluster-scoped parents cannot persist ControllerRevisions at all
			// (known finding F11, judged by C08); excluded here by construction
			c.Class("excluded-cluster-scoped-rolling")
			ch.Method = strings.TrimPrefix(ch.Method, "Rolling")
		}
		cfg.Children = append(cfg.Children, ch)
	}
	if cfg.Kind == "composite" {
		cfg.GenerateSelector = c.Prob(1, 4)
		if o.AllowSSA {
			cfg.SSA = c.Prob(1, 3)
		}
	}
	if o.AllowFinalize {
		cfg.FinalizeHook = c.Prob(1, 3)
	}
	cfg.SubresourcesFirst = c.Prob(1, 5)

	// parent
	pname := "p1"
	meta := map[string]any{"name": pname}
	if !cluster {
		meta["namespace"] = "ns1"
	}
	spec := map[string]any{
		"replicas": int64(c.Int(4)),
		"template": map[string]any{"v": c.PickStr("v1", "v2"), "size": int64(1 + c.Int(3))},
		"other":    c.PickStr("o1", "o2"),
	}
	s.SelLabels = map[string]string{}
	if cfg.Kind == "composite" && !cfg.GenerateSelector {
		s.SelLabels["app"] = pname
		sel := map[string]any{"matchLabels": map[string]any{"app": pname}}
		if c.Prob(1, 4) {
			sel["matchExpressions"] = []any{map[string]any{"key": "tier", "operator": "In", "values": []any{"a", "b"}}}
			s.SelLabels["tier"] = c.PickStr("a", "b")
		}
		spec["selector"] = sel
	}
	if cfg.Kind == "composite" && cfg.GenerateSelector && c.Bool() {
		// generateSelector: whatever selector the parent carries itself is ignored
		spec["selector"] = map[string]any{"matchLabels": map[string]any{"app": "ignored-" + pname}}
	}
	// Implicit precondition of rolling updates (controller_revision.go
	// newControllerRevision, issue #194): ControllerRevisions are labelled from
	// the parent's spec.template.metadata.labels, so those must satisfy the
	// parent's own selector or the revisions are released again at once.
	if len(s.SelLabels) > 0 {
		tl := map[string]any{}
		for k, v := range s.SelLabels {
			tl[k] = v
		}
		spec["template"].(map[string]any)["metadata"] = map[string]any{"labels": tl}
	}
	pd := map[string]string{"things": "Thing", "cthings": "CThing", "plains": "Plain"}
	s.Parent = map[string]any{"apiVersion": "ex.io/v1", "kind": pd[cfg.ParentResource], "metadata": meta, "spec": spec}

	// program
	for _, ch := range cfg.Children {
		s.Prog.Children = append(s.Prog.Children, GenChildTpl(c, ch.Resource, s.SelLabels, cluster))
	}
	s.Prog.Ordered = c.Prob(1, 5)
	if cfg.Kind == "composite" {
		s.Prog.StatusMode = c.Weighted(2, 1, 3, 1, 1)
	}
	s.Prog.FinalizeMode = c.Int(3)
	s.Prog.FinalizedMode = c.Weighted(4, 1, 1)
	return s
}

// GenChildTpl draws a template for one child resource.
func GenChildTpl(c *vs.Case, resource string, selLabels map[string]string, clusterParent bool) ChildTpl {
	tpl := ChildTpl{Resource: resource}
	nfixed := c.Int(3)
	for i := 0; i < nfixed; i++ {
		tpl.Names = append(tpl.Names, fmt.Sprintf("%s%d", resource[:2], i))
	}
	tpl.Replicated = c.Bool()
	if nfixed == 0 && !tpl.Replicated {
		tpl.Names = []string{resource[:2] + "0"}
	}
	tpl.Labels = map[string]string{}
	for k, v := range selLabels {
		tpl.Labels[k] = v
	}
	if c.Prob(1, 3) {
		tpl.Labels["extra"] = "x"
	}
	if clusterParent && resource != "cwidgets" {
		switch c.Int(3) {
		case 0:
			tpl.Namespaces = []string{"ns1"}
		case 1:
			tpl.Namespaces = []string{"ns2"}
		default:
			tpl.Namespaces = []string{"ns1", "ns2"}
		}
	} else if !clusterParent {
		tpl.ExplicitNS = c.Prob(1, 3)
	}
	tpl.Fields = GenChildFields(c, resource)
	tpl.EchoAnnotations = c.Prob(1, 6)
	if c.Prob(1, 5) {
		// the hook puts annotations of its own on the child
		tpl.Annotations = map[string]string{"note": "from-hook"}
	}
	return tpl
}

// GenChildFields draws the body of a desired child; string leaves "$p:path"
// refer to the parent.
func GenChildFields(c *vs.Case, resource string) map[string]any {
	if resource == "configmaps" {
		data := map[string]any{"v": "$p:spec.template.v"}
		if c.Bool() {
			data["other"] = "$p:spec.other"
		}
		if c.Prob(1, 3) {
			data["const"] = "c"
		}
		return map[string]any{"data": data}
	}
	spec := map[string]any{"v": "$p:spec.template.v"}
	if c.Bool() {
		spec["mode"] = "$p:spec.other"
	}
	if c.Prob(1, 2) {
		spec["size"] = "$p:spec.template.size"
	}
	if c.Prob(1, 3) {
		spec["ports"] = []any{
			map[string]any{"name": "web", "port": int64(80)},
			map[string]any{"name": "adm", "port": int64(8080), "proto": "$p:spec.template.v"},
		}
	}
	if c.Prob(1, 4) {
		spec["nested"] = map[string]any{"deep": map[string]any{"x": "$p:spec.other", "f": 1.5}, "flag": true}
	}
	if c.Prob(1, 5) {
		spec["args"] = []any{"a", "$p:spec.template.v"}
	}
	return map[string]any{"spec": spec}
}

// ---- independent helpers used by oracles ----------------------------------------

// ControllerOf returns the uid of the controller owner reference (or "").
func ControllerOf(obj map[string]any) string {
	m, _ := obj["metadata"].(map[string]any)
	refs, _ := m["ownerReferences"].([]any)
	for _, r := range refs {
		rm, _ := r.(map[string]any)
		if b, _ := rm["controller"].(bool); b {
			u, _ := rm["uid"].(string)
			return u
		}
	}
	return ""
}

// ControllerRefs counts controller:true references.
func ControllerRefs(obj map[string]any) int {
	m, _ := obj["metadata"].(map[string]any)
	refs, _ := m["ownerReferences"].([]any)
	n := 0
	for _, r := range refs {
		rm, _ := r.(map[string]any)
		if b, _ := rm["controller"].(bool); b {
			n++
		}
	}
	return n
}

func LabelsOf(obj map[string]any) map[string]string {
	m, _ := obj["metadata"].(map[string]any)
	l, _ := m["labels"].(map[string]any)
	out := map[string]string{}
	for k, v := range l {
		if s, ok := v.(string); ok {
			out[k] = s
		}
	}
	return out
}

func AnnotationsOf(obj map[string]any) map[string]string {
	m, _ := obj["metadata"].(map[string]any)
	l, _ := m["annotations"].(map[string]any)
	out := map[string]string{}
	for k, v := range l {
		if s, ok := v.(string); ok {
			out[k] = s
		}
	}
	return out
}

func MetaStr(obj map[string]any, f string) string { return metaStr(obj, f) }

func IsDeleting(obj map[string]any) bool {
	m, _ := obj["metadata"].(map[string]any)
	_, ok := m["deletionTimestamp"]
	return ok
}

// OwnedBy lists the objects of the given resources in the store whose
// controller reference carries uid, sorted by key.
func OwnedBy(sim *vs.Server, resources []string, uid string) []map[string]any {
	var out []map[string]any
	for _, r := range resources {
		for _, o := range sim.ListAll(r) {
			if ControllerOf(o) == uid {
				out = append(out, o)
			}
		}
	}
	return out
}

func SortedKeys[M ~map[string]V, V any](m M) []string {
	out := make([]string, 0, len(m))
	for k := range m {
		out = append(out, k)
	}
	sort.Strings(out)
	return out
}

// WireChildren builds, independently of metacontroller, the children map a
// hook must be sent for this parent given a list of candidate objects per
// resource: one group per declared resource (present when empty), inner key by
// the documented naming rule.
func WireChildren(sim *vs.Server, resources []string, parentNS string, objs []map[string]any) map[string]any {
	out := map[string]any{}
	for _, r := range resources {
		out[GroupKey(sim.Def(r))] = map[string]any{}
	}
	for _, o := range objs {
		d := sim.DefByKind(o["apiVersion"].(string), o["kind"].(string))
		g := out[GroupKey(d)].(map[string]any)
		g[WireName(parentNS, o)] = o
	}
	return out
}

// FixedScn is a hand-written minimal composite scenario used by regression
// cases: namespaced Thing p1 selecting app=p1, one child kind with the given
// names and update method, body fields derived from spec.template.v.
func FixedScn(childResource, method string, names []string, statusMode int) *Scn {
	s := &Scn{SelLabels: map[string]string{"app": "p1"}}
	s.Cfg = CtlConfig{Kind: "composite", Name: "ctl", ParentResource: "things", SyncHook: true,
		Children: []ChildCfg{{Resource: childResource, Method: method}}}
	s.Parent = map[string]any{"apiVersion": "ex.io/v1", "kind": "Thing",
		"metadata": map[string]any{"name": "p1", "namespace": "ns1"},
		"spec": map[string]any{
			"selector": map[string]any{"matchLabels": map[string]any{"app": "p1"}},
			"replicas": int64(0),
			"other":    "o1",
			"template": map[string]any{"v": "v1", "metadata": map[string]any{"labels": map[string]any{"app": "p1"}}},
		}}
	fields := map[string]any{"spec": map[string]any{"v": "$p:spec.template.v", "mode": "$p:spec.other"}}
	if childResource == "configmaps" {
		fields = map[string]any{"data": map[string]any{"v": "$p:spec.template.v", "mode": "$p:spec.other"}}
	}
	s.Prog = HookProgram{StatusMode: statusMode, Children: []ChildTpl{{Resource: childResource, Names: names,
		Labels: map[string]string{"app": "p1"}, Fields: fields}}}
	return s
}
