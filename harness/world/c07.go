package verifworld

import (
	"fmt"
	metav1 "k8s.io/apimachinery/pkg/apis/meta/v1"
	"sort"
	"strings"

	vs "metacontroller/pkg/internal/verifsim"
)

// ownedWidgets returns the rolling children the parent controls, by name.
func (e *Env) ownedWidgets() map[string]map[string]any {
	out := map[string]map[string]any{}
	for _, o := range e.W.Sim.ListAll("widgets") {
		if ControllerOf(o) == e.ParentUID && metaStr(o, "namespace") == e.Scn.ParentNS() && e.selectorMatches(e.Scn.Parent, LabelsOf(o)) {
			out[metaStr(o, "name")] = o
		}
	}
	return out
}

func (e *Env) setWidgetHealth(name string, mode int) {
	e.W.Sim.ExtUpdate("widgets", "ns1", name, func(obj map[string]any) {
		gen, _ := toF(obj["metadata"].(map[string]any)["generation"])
		switch mode {
		case 0: // healthy
			st := map[string]any{"conditions": []any{map[string]any{"type": "Ready", "status": "True", "reason": "Fine"}}}
			if og, ok := e.healthyOG(int64(gen)); ok {
				st["observedGeneration"] = og
			}
			obj["status"] = st
		case 1: // unhealthy
			obj["status"] = map[string]any{"observedGeneration": int64(gen), "conditions": []any{map[string]any{"type": "Ready", "status": "False", "reason": "NotYet"}}}
		case 2: // Ready, but has not observed its latest generation
			og := int64(gen) - 1
			if og < 1 {
				og = 1
			}
			obj["status"] = map[string]any{"observedGeneration": og, "conditions": []any{map[string]any{"type": "Ready", "status": "True", "reason": "Fine"}}}
		case 3: // Ready for another reason
			obj["status"] = map[string]any{"observedGeneration": int64(gen), "conditions": []any{map[string]any{"type": "Ready", "status": "True", "reason": "Other"}}}
		}
	})
}

func (e *Env) editParent(which int) string {
	desc := ""
	if which == 9 {
		// the user deletes the parent; our finalizer keeps it around
		e.W.Sim.ExtDelete(e.Scn.Cfg.ParentResource, e.Scn.ParentNS(), e.Scn.ParentName(), "")
		return "delete-parent"
	}
	e.W.Sim.ExtUpdate(e.Scn.Cfg.ParentResource, e.Scn.ParentNS(), e.Scn.ParentName(), func(obj map[string]any) {
		spec := obj["spec"].(map[string]any)
		switch which {
		case 1:
			tpl := spec["template"].(map[string]any)
			next := map[string]string{"v1": "v2", "v2": "v3", "v3": "v1"}[fmt.Sprint(tpl["v"])]
			tpl["v"] = next
			desc = "template.v=" + next
		case 2:
			if spec["other"] == "o1" {
				spec["other"] = "o2"
			} else {
				spec["other"] = "o1"
			}
			desc = "other=" + fmt.Sprint(spec["other"])
		case 3:
			n, _ := spec["replicas"].(int64)
			spec["replicas"] = n + 1
			desc = fmt.Sprintf("replicas=%d", n+1)
		case 4:
			n, _ := spec["replicas"].(int64)
			if n > 0 {
				spec["replicas"] = n - 1
			}
			desc = fmt.Sprintf("replicas=%d", spec["replicas"])
		case 5:
			// back to the template the rollout started from (a rollback)
			spec["template"].(map[string]any)["v"] = "v1"
			desc = "template.v=v1 (rollback)"
		case 6:
			// a purely additive change of a revisioned field (a key appears), or its removal
			tpl := spec["template"].(map[string]any)
			if _, has := tpl["extra"]; has {
				delete(tpl, "extra")
				desc = "template.extra removed"
			} else {
				tpl["extra"] = "x"
				desc = "template.extra=x (additive)"
			}
		}
	})
	return desc
}

// PropC07: rolling updates move one child per sync, in hook order, gated on health.
func PropC07(c *vs.Case, f Factory, o RolloutOpts) error {
	scn := NewRolloutScn(c, o)
	env, err := NewEnv(scn, f)
	if err != nil {
		return fmt.Errorf("harness: %v", err)
	}
	if !o.Small {
		env.OGStyle = c.Weighted(5, 1, 1, 1)
		c.Class("observedGeneration-style-%d", env.OGStyle)
		env.CondStyle = c.Weighted(4, 1, 1)
	}
	var log []string
	c.Describe(func() any {
		return map[string]any{"scenario": scn, "steps": log, "ogStyle": env.OGStyle, "condStyle": env.CondStyle}
	})
	sawTwoRevs := false
	judged := func() error {
		env.W.SyncAll()
		parent := env.Parent()
		revs := env.W.Sim.ListAll("controllerrevisions")
		observed := env.ownedWidgets()
		model := ModelRolloutStep(env, parent, revs, observed)
		live := 0
		for _, r := range model.Revs {
			if r.Latest || len(r.Names) > 0 {
				live++
			}
		}
		t := env.Sync()
		if t.Panic != "" {
			return vs.Violf("C07/panic", "panic: %s", t.Panic)
		}
		log = append(log, fmt.Sprintf("sync: model %s moved=%q immediate=%v; %d requests", model.Reason, model.Moved, model.Immediate, len(t.Reqs)))
		if live >= 2 {
			sawTwoRevs = true
		}
		c.Class("sync:%s", model.Reason)
		if err := JudgeRolloutSync(c, env, t, model, observed, parent); err != nil {
			return withTrace(err, t)
		}
		return nil
	}
	// bring the children up
	for i := 0; i < 2; i++ {
		if err := judged(); err != nil {
			return err
		}
		env.MakeHealthy()
	}
	for s := 0; s < o.Steps; s++ {
		// parent edit
		editW := []int{3, 3, 2}
		editN := []int{0, 1, 2}
		if o.Scale {
			editW = append(editW, 1, 1)
			editN = append(editN, 3, 4)
		}
		if !o.Small {
			editW = append(editW, 1) // additive template change
			editN = append(editN, 6)
		}
		if which := editN[c.Weighted(editW...)]; which > 0 {
			log = append(log, "edit "+env.editParent(which))
			c.Class("edit-%d", which)
		}
		// environment: health of every owned child
		names := SortedKeys(env.ownedWidgets())
		for _, n := range names {
			modes := 2
			if o.Lag {
				modes = 4
			}
			if o.Deletes {
				modes++
			}
			mode := c.Int(modes)
			if o.Deletes && mode == modes-1 {
				env.W.Sim.Purge("widgets", "ns1", n)
				log = append(log, "deleted "+n)
				c.Class("env:child-deleted")
				continue
			}
			env.setWidgetHealth(n, mode)
			log = append(log, fmt.Sprintf("%s health=%d", n, mode))
		}
		if err := judged(); err != nil {
			return err
		}
	}
	if sawTwoRevs {
		c.NonTrivial()
	}
	if v := env.SharedStateViolation(); v != nil {
		return v
	}
	return nil
}

// PropC08: a rolling update of healthy children always completes and cleans up.
func PropC08(c *vs.Case, f Factory, o RolloutOpts) error {
	scn := NewRolloutScn(c, o)
	twoKinds := false
	for _, ch := range scn.Cfg.Children {
		if ch.Resource == "gadgets" {
			twoKinds = true // the step model only knows one rolling kind: liveness rules only
		}
	}
	clusterParent := c.Prob(1, 10)
	if clusterParent {
		// the quantifier includes cluster-scoped parents
		scn.Cfg.ParentResource = "cthings"
		scn.Parent["kind"] = "CThing"
		delete(scn.Parent["metadata"].(map[string]any), "namespace")
		for i := range scn.Prog.Children {
			scn.Prog.Children[i].Namespaces = []string{"ns1"}
		}
		c.Class("cluster-scoped-parent")
	}
	env, err := NewEnv(scn, f)
	if err != nil {
		return fmt.Errorf("harness: %v", err)
	}
	if clusterParent {
		c.Describe(func() any { return map[string]any{"scenario": scn} })
		var last *SyncTrace
		for i := 0; i < 4; i++ {
			env.MakeHealthy()
			last = env.SyncFresh()
			if last.Panic != "" {
				return vs.Violf("C08/panic", "panic: %s", last.Panic)
			}
		}
		c.NonTrivial()
		if last.Err != nil && strings.Contains(last.Err.Error(), "ControllerRevision") {
			return c.Known(withTrace(vs.Violf("C08/cluster-scoped-parent-cannot-roll", "a cluster-scoped parent with a rolling child strategy never gets anywhere: every sync fails with %v", last.Err), last).(*vs.Violation))
		}
		if last.Err != nil {
			return withTrace(vs.Violf("C08/sync-error", "cluster-scoped rolling parent: sync fails: %v", last.Err), last)
		}
		return nil
	}
	env.OGStyle = c.Weighted(5, 1, 1, 1)
	c.Class("observedGeneration-style-%d", env.OGStyle)
	env.CondStyle = c.Weighted(4, 1, 1)
	c.Class("condition-style-%d", env.CondStyle)
	var log []string
	c.Describe(func() any {
		return map[string]any{"scenario": scn, "steps": log, "ogStyle": env.OGStyle, "condStyle": env.CondStyle}
	})
	shuffleRevs := c.Prob(1, 4)
	if shuffleRevs {
		c.Class("revision-claims-relisted-in-another-order")
	}
	afterHiccup := false // the step model does not know the states a half-finished sync leaves: liveness rules only from then on
	fairSync := func() (*SyncTrace, error) {
		env.MakeHealthy()
		if shuffleRevs {
			// the stored ControllerRevisions list the same claims in another order (written by another
			// version, restored from a backup): the order carries no meaning
			for _, ro := range env.W.Sim.ListAll("controllerrevisions") {
				env.W.Sim.ExtUpdate("controllerrevisions", metaStr(ro, "namespace"), metaStr(ro, "name"), func(o map[string]any) {
					kids, _ := o["children"].([]any)
					for i, j := 0, len(kids)-1; i < j; i, j = i+1, j-1 {
						kids[i], kids[j] = kids[j], kids[i]
					}
					for _, k := range kids {
						if km, ok := k.(map[string]any); ok {
							if ns, ok := km["names"].([]any); ok {
								sort.Slice(ns, func(a, b int) bool { return fmt.Sprint(ns[a]) > fmt.Sprint(ns[b]) })
							}
						}
					}
				})
			}
		}
		env.W.SyncAll()
		parent := env.Parent()
		observed := env.ownedWidgets()
		model := ModelRolloutStep(env, parent, env.W.Sim.ListAll("controllerrevisions"), observed)
		t := env.Sync()
		if t.Panic != "" {
			return t, vs.Violf("C08/panic", "panic: %s", t.Panic)
		}
		if t.Err != nil {
			return t, withTrace(vs.Violf("C08/sync-error", "sync failed under a fault-free, fair environment: %v", t.Err), t)
		}
		// never wait on a child that exists, is up to date and passes its checks
		if cond := condOf(env.Parent(), "Updated"); !twoKinds && !afterHiccup && cond != nil && cond["reason"] == "RolloutWaiting" && model.Reason != "RolloutWaiting" {
			return t, withTrace(vs.Violf("C08/waits-on-healthy-child", "parent reports RolloutWaiting (%v) although every child on the latest revision exists, is up to date and healthy (model: %s)", cond["message"], model.Reason), t)
		}
		return t, nil
	}
	for i := 0; i < 3; i++ {
		if _, err := fairSync(); err != nil {
			return err
		}
	}
	changes := 1 + c.Int(2)
	mid := c.Int(3)
	n := len(env.ownedWidgets())
	first := 1
	if !o.Small && c.Prob(1, 4) {
		first = 6
		c.Class("additive-change")
	}
	log = append(log, "edit "+env.editParent(first))
	if changes == 2 {
		c.Class("second-change-mid-rollout")
	}
	for i := 0; i < mid && changes == 2; i++ {
		if _, err := fairSync(); err != nil {
			return err
		}
	}
	if changes == 2 {
		which := 1
		if o.Scale && c.Bool() {
			which = 3 + c.Int(2)
		} else if c.Prob(1, 3) {
			which = 5
			c.Class("rollback-mid-rollout")
		} else if !o.Small && c.Prob(1, 4) {
			which = 6
		}
		log = append(log, "edit "+env.editParent(which))
	}
	if nn := len(scn.Prog.DesiredAll(env.W.Sim, env.Parent())); nn > n {
		n = nn
	}
	bound := 3*n + 6
	// One hiccup: a single write of a single sync fails (refused before it is stored, or stored with the answer
	// lost). Every child still turns healthy after each update, so the antecedent holds and the rollout has to
	// finish all the same, a constant number of syncs later.
	hiccupAt := -1
	if c.Prob(1, 4) {
		hiccupAt = c.Int(2*n + 2)
		bound += 4
	}
	var last *SyncTrace
	for i := 0; i < bound; i++ {
		if i == hiccupAt {
			k := c.Int(4)
			kind := c.PickStr("500", "409", "lost-answer")
			env.MakeHealthy()
			env.W.SyncAll()
			seen := 0
			hit := ""
			env.W.Sim.Before = func(r *vs.Request) *vs.Fault {
				if !r.Mutating() {
					return nil
				}
				seen++
				if seen-1 != k {
					return nil
				}
				hit = r.Verb + " " + r.Def.Resource + " " + r.Name
				switch kind {
				case "500":
					return &vs.Fault{Code: 500, Reason: metav1.StatusReasonInternalError}
				case "409":
					return &vs.Fault{Code: 409, Reason: metav1.StatusReasonConflict}
				}
				return &vs.Fault{AfterCommit: true, Transport: fmt.Errorf("connection reset by peer")}
			}
			t := env.Sync()
			env.W.Sim.Before = nil
			if t.Panic != "" {
				return vs.Violf("C08/panic", "panic: %s", t.Panic)
			}
			afterHiccup = true
			if hit != "" {
				c.Class("hiccup-%s", kind)
				if strings.Contains(hit, "controllerrevisions") {
					c.Class("hiccup-on-a-controllerrevision-write")
				}
				log = append(log, fmt.Sprintf("sync %d: write #%d (%s) failed: %s", i, k, hit, kind))
			}
			last = t
			continue
		}
		t, err := fairSync()
		if err != nil {
			return err
		}
		last = t
	}
	if n >= 2 {
		c.NonTrivial()
	}
	c.Class("children=%d method=%s", n, scn.Cfg.Children[0].Method)
	parent := env.Parent()
	for _, d := range scn.Prog.DesiredAll(env.W.Sim, parent) {
		want := env.NormalizeDesired(d)
		if want["kind"] != "Widget" && want["kind"] != "Gadget" {
			continue
		}
		live := env.W.Sim.Get(env.W.Sim.DefByKind(want["apiVersion"].(string), want["kind"].(string)).Resource, "ns1", metaStr(want, "name"))
		if live == nil {
			return withTrace(vs.Violf("C08/rollout-stalled", "after %d fair syncs child %s does not exist", bound, metaStr(want, "name")), last)
		}
		if ok, why := Contains(live, want); !ok {
			return withTrace(vs.Violf("C08/rollout-stalled", "after %d fair syncs (n=%d) child %s is not at the latest revision's desired state: %s; parent status %v", bound, n, metaStr(want, "name"), why, parent["status"]), last)
		}
	}
	if cond := condOf(parent, "Updated"); cond == nil || cond["status"] != "True" {
		return withTrace(vs.Violf("C08/updated-not-true", "after %d fair syncs the Updated condition is %v", bound, cond), last)
	}
	owned := 0
	for _, r := range env.W.Sim.ListAll("controllerrevisions") {
		if ControllerOf(r) == env.ParentUID {
			owned++
		}
	}
	if owned != 1 {
		return withTrace(vs.Violf("C08/revisions-not-pruned", "%d ControllerRevisions remain after the rollout completed, want exactly the latest", owned), last)
	}
	if v := env.SharedStateViolation(); v != nil {
		return v
	}
	return nil
}

// PropC07CrossKind: the health gate is "every child already on the latest revision", whatever its kind, judged by
// the status checks configured for ITS kind. Two rolling child kinds with different strategies: A carries status
// checks and comes first in the hook's order, B has none (and its own rolling method). Once every A child has
// moved and some B child has not, one A child turns unhealthy: the next sync may move nothing.
func PropC07CrossKind(c *vs.Case, f Factory) error {
	scn := NewRolloutScn(c, RolloutOpts{MaxChildren: 2, Small: true})
	tr := "True"
	aRes, bRes := "widgets", "gadgets"
	if c.Bool() {
		aRes, bRes = "gadgets", "widgets"
	}
	mkTpl := func(res string, n int, prefix string) ChildTpl {
		t := ChildTpl{Resource: res, Labels: map[string]string{"app": "p1"},
			Fields: map[string]any{"spec": map[string]any{"v": "$p:spec.template.v", "mode": "$p:spec.other"}}}
		for i := 0; i < n; i++ {
			t.Names = append(t.Names, fmt.Sprintf("%s%d", prefix, i))
		}
		return t
	}
	nA, nB := 1+c.Int(2), 1+c.Int(2)
	a := ChildCfg{Resource: aRes, Method: c.PickStr("RollingInPlace", "RollingRecreate"), Checks: []CondCheck{{Type: "Ready", Status: &tr}}}
	b := ChildCfg{Resource: bRes, Method: c.PickStr("RollingInPlace", "RollingRecreate")}
	scn.Cfg.Children = []ChildCfg{a, b}
	if c.Bool() {
		scn.Cfg.Children = []ChildCfg{b, a} // the order of the rules in the controller spec carries no meaning
	}
	scn.Prog.Children = []ChildTpl{mkTpl(aRes, nA, "a"), mkTpl(bRes, nB, "b")}
	env, err := NewEnv(scn, f)
	if err != nil {
		return fmt.Errorf("harness: %v", err)
	}
	var log []string
	c.Describe(func() any { return map[string]any{"scenario": scn, "steps": log} })
	fair := func() (*SyncTrace, error) {
		env.MakeHealthy()
		env.W.SyncAll()
		t := env.Sync()
		if t.Panic != "" {
			return t, vs.Violf("C07/panic", "panic: %s", t.Panic)
		}
		if t.Err != nil {
			return t, fmt.Errorf("harness: fair sync failed: %v", t.Err)
		}
		return t, nil
	}
	for i := 0; i < 3; i++ {
		if _, err := fair(); err != nil {
			return err
		}
	}
	log = append(log, "edit "+env.editParent(1))
	newV, _ := getPath(env.Parent(), "spec.template.v")
	vOf := func(res, name string) string {
		o := env.W.Sim.Get(res, "ns1", name)
		if o == nil {
			return ""
		}
		v, _ := getPath(o, "spec.v")
		return fmt.Sprint(v)
	}
	reached := false
	for i := 0; i < 2*nA+3 && !reached; i++ {
		if _, err := fair(); err != nil {
			return err
		}
		allA, someBOld, noBNew := true, false, true
		for _, n := range scn.Prog.Children[0].Names {
			if vOf(aRes, n) != fmt.Sprint(newV) {
				allA = false
			}
		}
		for _, n := range scn.Prog.Children[1].Names {
			switch vOf(bRes, n) {
			case fmt.Sprint(newV):
				noBNew = false
			case "":
				noBNew = false // being recreated: not the state aimed at
			default:
				someBOld = true
			}
		}
		reached = allA && someBOld && noBNew
	}
	if !reached {
		c.Class("cross-kind-state-not-reached")
		return nil
	}
	c.NonTrivial()
	c.Class("cross-kind A=%s/%s B=%s/%s", aRes, a.Method, bRes, b.Method)
	// one A child (on the latest revision) stops being Ready
	env.MakeHealthy()
	sick := scn.Prog.Children[0].Names[c.Int(nA)]
	env.W.Sim.ExtUpdate(aRes, "ns1", sick, func(obj map[string]any) {
		st, _ := obj["status"].(map[string]any)
		if st == nil {
			st = map[string]any{}
			obj["status"] = st
		}
		st["conditions"] = []any{map[string]any{"type": "Ready", "status": "False", "reason": "Sick"}}
	})
	log = append(log, fmt.Sprintf("%s %s turns unhealthy (Ready=False) while on the latest revision", aRes, sick))
	env.W.SyncAll()
	t := env.Sync()
	if t.Panic != "" {
		return vs.Violf("C07/panic", "panic: %s", t.Panic)
	}
	for _, r := range t.Reqs {
		if r.Mutating() && (r.Def.Resource == "widgets" || r.Def.Resource == "gadgets") {
			return withTrace(vs.Violf("C07/moved-past-unhealthy-child-of-another-kind", "%s %s is on the latest revision and fails the status check configured for its kind, yet the sync issued %s (no child may move before every child on the latest revision is healthy)", aRes, sick, r.String()), t)
		}
	}
	if cond := condOf(env.Parent(), "Updated"); cond == nil || cond["reason"] != "RolloutWaiting" {
		return withTrace(vs.Violf("C07/updated-condition-wrong", "a child on the latest revision is unhealthy and children of another kind still wait to be moved, but the Updated condition is %v (want RolloutWaiting)", cond), t)
	}
	return nil
}
