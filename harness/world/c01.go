package verifworld

import (
	"fmt"
	"strings"

	vs "metacontroller/pkg/internal/verifsim"
)

// Contains reports whether every leaf of want is present in got with the same
// value (maps recursively; list-maps by conventional key; other lists equal).
func Contains(got, want any) (bool, string) { return containsAt("", got, want) }

func containsAt(path string, got, want any) (bool, string) {
	switch w := want.(type) {
	case map[string]any:
		g, ok := got.(map[string]any)
		if !ok {
			return false, fmt.Sprintf("%s: want object, got %T", path, got)
		}
		for _, k := range SortedKeys(w) {
			gv, present := g[k]
			if !present {
				return false, fmt.Sprintf("%s.%s: missing (want %v)", path, k, w[k])
			}
			if ok, why := containsAt(path+"."+k, gv, w[k]); !ok {
				return false, why
			}
		}
		return true, ""
	case []any:
		g, ok := got.([]any)
		if !ok {
			return false, fmt.Sprintf("%s: want list, got %T", path, got)
		}
		key := listKey(w, g)
		if key == "" {
			if !vs.JSONEqual(g, w) {
				return false, fmt.Sprintf("%s: list %v, want %v", path, g, w)
			}
			return true, ""
		}
		for _, wi := range w {
			wm := wi.(map[string]any)
			var found map[string]any
			for _, gi := range g {
				gm := gi.(map[string]any)
				if fmt.Sprint(gm[key]) == fmt.Sprint(wm[key]) {
					found = gm
				}
			}
			if found == nil {
				return false, fmt.Sprintf("%s: no item with %s=%v", path, key, wm[key])
			}
			if ok, why := containsAt(fmt.Sprintf("%s[%s=%v]", path, key, wm[key]), found, wm); !ok {
				return false, why
			}
		}
		return true, ""
	default:
		if !vs.JSONEqual(got, want) {
			return false, fmt.Sprintf("%s: %v, want %v", path, got, want)
		}
		return true, ""
	}
}

func listKey(lists ...[]any) string {
	keys := []string{"containerPort", "port", "mountPath", "name", "uid", "ip", "path"}
	for _, k := range keys {
		ok := true
		n := 0
		for _, l := range lists {
			for _, it := range l {
				m, isMap := it.(map[string]any)
				if !isMap {
					return ""
				}
				n++
				if _, has := m[k]; !has {
					ok = false
				}
			}
		}
		if ok && n > 0 {
			return k
		}
	}
	return ""
}

// OwnedChildren lists what the parent "owns" in the sense of C01/C03: for a
// composite parent, objects of the declared kinds whose controller reference
// carries the parent's UID; for a decorator additionally the marker.
func (e *Env) OwnedChildren() []map[string]any {
	var out []map[string]any
	pns := e.Scn.ParentNS()
	for _, o := range OwnedBy(e.W.Sim, e.ChildResources(), e.ParentUID) {
		// a namespaced parent can only own objects of its own namespace
		// (owner references do not cross namespaces)
		if pns != "" && metaStr(o, "namespace") != pns {
			continue
		}
		if e.Scn.Cfg.Kind == "decorator" && AnnotationsOf(o)["metacontroller.k8s.io/decorator-controller"] != e.Scn.Cfg.Name {
			continue
		}
		out = append(out, o)
	}
	return out
}

func methodPermitsUpdate(m string) bool {
	switch m {
	case "InPlace", "Recreate", "RollingInPlace", "RollingRecreate":
		return true
	}
	return false
}

// MakeHealthy marks every child of the declared kinds Ready and up to date
// with its own generation (the fair environment of C08 / ordered hooks).
func (e *Env) MakeHealthy() {
	for _, r := range e.ChildResources() {
		for _, o := range e.W.Sim.ListAll(r) {
			if ControllerOf(o) != e.ParentUID {
				continue
			}
			gen, _ := o["metadata"].(map[string]any)["generation"]
			ready := map[string]any{"type": "Ready", "status": "True", "reason": "Fine"}
			conds := []any{ready}
			switch e.CondStyle {
			case 1:
				ready["lastTransitionTime"] = "2024-01-01T00:00:00Z"
				ready["message"] = "all good"
			case 2:
				ready["lastTransitionTime"] = "2024-01-01T00:00:00.123456"
				conds = []any{map[string]any{"type": "Initialized", "status": "True", "lastTransitionTime": "", "observedGeneration": "7"}, ready}
			}
			want := map[string]any{"conditions": conds}
			if og, ok := e.healthyOG(gen); ok {
				want["observedGeneration"] = og
			}
			if vs.JSONEqual(o["status"], want) {
				continue
			}
			e.W.Sim.ExtUpdate(r, metaStr(o, "namespace"), metaStr(o, "name"), func(obj map[string]any) { obj["status"] = want })
		}
	}
}

// PropC01: convergence to the hook's desired children, then quiescence.
func PropC01(c *vs.Case, f Factory, kind string) error {
	scn := GenScn(c, GenOpts{Kind: kind, AllowRolling: true, AllowSSA: true, AllowFinalize: true})
	if c.Prob(1, 4) {
		// debug verbosity: the V(5) code paths (diff rendering etc.) run too
		SetVerboseLogging(true)
		defer SetVerboseLogging(false)
		c.Class("verbose-logging")
	}
	for i := range scn.Prog.Children {
		// hooks that serialise typed objects return a status stanza with every child
		if c.Prob(1, 5) {
			scn.Prog.Children[i].Fields["status"] = map[string]any{"phase": "FromHook"}
			c.Class("desired-carries-status")
		}
	}
	env, err := NewEnv(scn, f)
	if err != nil {
		return fmt.Errorf("harness: %v", err)
	}
	seeds := SeedStore(c, env, SeedOpts{})
	var history []string
	c.Describe(func() any {
		return map[string]any{"scenario": scn, "seeds": seeds, "history": history}
	})
	firstWrites := 0
	step := func(tag string) (*SyncTrace, error) {
		t := env.SyncFresh()
		if t.Panic != "" {
			return t, vs.Violf("C01/panic", "panic in sync (%s): %s", tag, t.Panic)
		}
		return t, nil
	}
	// history
	rounds := c.Int(3)
	for r := 0; r < rounds; r++ {
		k := 1 + c.Int(2)
		for i := 0; i < k; i++ {
			t, e := step("history")
			if e != nil {
				return e
			}
			if env.Syncs == 1 {
				for _, w := range t.Writes() {
					if w.Def.Resource != scn.Cfg.ParentResource && w.Def.Resource != "controllerrevisions" {
						firstWrites++
					}
				}
			}
			history = append(history, fmt.Sprintf("sync#%d", env.Syncs))
		}
		switch c.Weighted(3, 2, 2, 2, 1, 1, 1) {
		case 6: // an owned child is deleted and at once re-created by someone else as a matching look-alike (new UID, generation 1)
			owned := env.OwnedChildren()
			if len(owned) > 0 && scn.Cfg.Kind == "composite" {
				o := owned[c.Int(len(owned))]
				d := env.W.Sim.DefByKind(o["apiVersion"].(string), o["kind"].(string))
				env.W.Sim.Purge(d.Resource, metaStr(o, "namespace"), metaStr(o, "name"))
				obj := map[string]any{"apiVersion": d.APIVersion(), "kind": d.Kind, "metadata": map[string]any{"name": metaStr(o, "name"), "labels": env.MatchLabels()}}
				if ns := metaStr(o, "namespace"); ns != "" {
					obj["metadata"].(map[string]any)["namespace"] = ns
				}
				if d.Resource == "configmaps" {
					obj["data"] = map[string]any{"v": "someone-elses"}
				} else {
					obj["spec"] = map[string]any{"v": "someone-elses"}
				}
				if _, err := env.W.Sim.ExtCreate(d.Resource, obj); err == nil {
					history = append(history, "replaced "+ObjID(o)+" by a matching look-alike")
					c.Class("history:owned-child-replaced-by-look-alike")
				}
			}
		case 5: // scale to zero, let the children go, someone re-creates one of them differently, scale back
			n, _ := env.Parent()["spec"].(map[string]any)["replicas"].(int64)
			var gone []map[string]any
			for _, o := range env.OwnedChildren() {
				gone = append(gone, o)
			}
			if scn.Cfg.Kind != "composite" || n == 0 || len(gone) == 0 {
				break
			}
			setReplicas := func(v int64) {
				env.W.Sim.ExtUpdate(scn.Cfg.ParentResource, scn.ParentNS(), scn.ParentName(), func(obj map[string]any) {
					obj["spec"].(map[string]any)["replicas"] = v
				})
			}
			setReplicas(0)
			for i := 0; i < 3; i++ {
				if _, e := step("recycle"); e != nil {
					return e
				}
			}
			o := gone[c.Int(len(gone))]
			d := env.W.Sim.DefByKind(o["apiVersion"].(string), o["kind"].(string))
			if env.W.Sim.Get(d.Resource, metaStr(o, "namespace"), metaStr(o, "name")) == nil {
				obj := map[string]any{"apiVersion": d.APIVersion(), "kind": d.Kind, "metadata": map[string]any{"name": metaStr(o, "name"), "labels": env.MatchLabels()}}
				if ns := metaStr(o, "namespace"); ns != "" {
					obj["metadata"].(map[string]any)["namespace"] = ns
				}
				if d.Resource == "configmaps" {
					obj["data"] = map[string]any{"v": "someone-elses"}
				} else {
					obj["spec"] = map[string]any{"v": "someone-elses"}
				}
				if _, err := env.W.Sim.ExtCreate(d.Resource, obj); err == nil {
					c.Class("history:recycled-name-recreated")
				}
			}
			setReplicas(n)
			history = append(history, "scale-to-zero, re-create "+ObjID(o)+" as matching orphan, scale back")
		case 4: // someone creates an adoptable object under the name of a replicated child (desired or not right now)
			tpl := scn.Prog.Children[c.Int(len(scn.Prog.Children))]
			d := env.W.Sim.Def(tpl.Resource)
			if scn.Cfg.Kind == "composite" && d.Namespaced && scn.ParentNS() != "" {
				name := fmt.Sprintf("%s-%s-%d", scn.ParentName(), strings.ToLower(d.Kind[:1]), c.Int(3))
				obj := map[string]any{"apiVersion": d.APIVersion(), "kind": d.Kind, "metadata": map[string]any{"name": name, "namespace": scn.ParentNS(), "labels": env.MatchLabels()}}
				if tpl.Resource == "configmaps" {
					obj["data"] = map[string]any{"v": "someone-elses"}
				} else {
					obj["spec"] = map[string]any{"v": "someone-elses"}
				}
				if _, err := env.W.Sim.ExtCreate(tpl.Resource, obj); err == nil {
					history = append(history, "ext-create matching orphan "+name)
					c.Class("history:orphan-on-replicated-name")
				}
			}
		case 1: // parent spec edit
			which := c.Int(3)
			env.W.Sim.ExtUpdate(scn.Cfg.ParentResource, scn.ParentNS(), scn.ParentName(), func(obj map[string]any) {
				spec := obj["spec"].(map[string]any)
				switch which {
				case 0:
					tpl := spec["template"].(map[string]any)
					if tpl["v"] == "v1" {
						tpl["v"] = "v2"
					} else {
						tpl["v"] = "v1"
					}
				case 1:
					if spec["other"] == "o1" {
						spec["other"] = "o2"
					} else {
						spec["other"] = "o1"
					}
				default:
					n, _ := spec["replicas"].(int64)
					spec["replicas"] = (n + 1) % 4
				}
			})
			history = append(history, fmt.Sprintf("edit-parent-%d", which))
			c.Class("history:parent-edit-%d", which)
		case 2: // external delete of an owned child
			owned := env.OwnedChildren()
			if len(owned) > 0 {
				o := owned[c.Int(len(owned))]
				d := env.W.Sim.DefByKind(o["apiVersion"].(string), o["kind"].(string))
				env.W.Sim.ExtDelete(d.Resource, metaStr(o, "namespace"), metaStr(o, "name"), "")
				history = append(history, "ext-delete "+ObjID(o))
				c.Class("history:ext-delete")
			}
		case 3: // drift of an owned child
			owned := env.OwnedChildren()
			if len(owned) > 0 {
				o := owned[c.Int(len(owned))]
				d := env.W.Sim.DefByKind(o["apiVersion"].(string), o["kind"].(string))
				driftInItem := c.Bool()
				env.W.Sim.ExtUpdate(d.Resource, metaStr(o, "namespace"), metaStr(o, "name"), func(obj map[string]any) {
					for _, k := range []string{"spec", "data"} {
						if m, ok := obj[k].(map[string]any); ok {
							m["v"] = "drifted"
							m["foreign"] = "kept"
							// a hook-specified field inside a keyed list item drifts as well (the item stays)
							if ports, ok := m["ports"].([]any); ok && len(ports) > 0 && driftInItem {
								if it, ok := ports[len(ports)-1].(map[string]any); ok {
									if _, has := it["proto"]; has {
										it["proto"] = "drifted" // not a merge key: the item is the same item
									} else {
										it["port"] = int64(9999)
									}
									c.Class("history:drift-inside-list-item")
								}
							}
						}
					}
				})
				history = append(history, "drift "+ObjID(o))
				c.Class("history:drift")
			}
		}
	}
	// run to the fixpoint
	nDesired := len(scn.Prog.DesiredAll(env.W.Sim, env.Parent()))
	bound := 2*nDesired + len(env.W.Sim.ListAll("controllerrevisions")) + 6
	var last *SyncTrace
	quiet := 0
	for i := 0; i < bound && quiet < 2; i++ {
		if scn.Prog.OrderedReady {
			env.MakeHealthy()
		}
		before := env.W.Sim.RV()
		t, e := step("converge")
		if e != nil {
			return e
		}
		if env.Syncs == 1 {
			for _, w := range t.Writes() {
				if w.Def.Resource != scn.Cfg.ParentResource && w.Def.Resource != "controllerrevisions" {
					firstWrites++
				}
			}
		}
		last = t
		if env.W.Sim.RV() == before && len(childWrites(env, t)) == 0 {
			quiet++
		} else {
			quiet = 0
		}
	}
	if firstWrites > 0 && len(seeds) > 0 {
		c.NonTrivial()
	}
	c.Class("cfg:%s ssa=%v gensel=%v", kind, scn.Cfg.SSA, scn.Cfg.GenerateSelector)
	tail := func() string {
		if last == nil {
			return ""
		}
		return "\nlast sync:\n  " + strings.Join(last.Summary(), "\n  ")
	}
	if last != nil && last.Err != nil {
		// a sync that keeps failing has not converged
		return vs.Violf("C01/sync-error-at-fixpoint", "sync still fails after %d syncs: %v%s", env.Syncs, last.Err, tail())
	}
	if quiet < 2 {
		return vs.Violf("C01/no-quiescence", "no quiescent state within %d syncs (bound %d): the last sync still wrote%s", env.Syncs, bound, tail())
	}
	// (1) owned set == desired set
	parent := env.Parent()
	desired := map[string]map[string]any{}
	for _, d := range scn.Prog.DesiredAll(env.W.Sim, parent) {
		n := env.NormalizeDesired(d)
		// a child's status belongs to whoever runs the child: metacontroller keeps it as observed (C05)
		delete(n, "status")
		desired[ObjID(n)] = n
	}
	owned := map[string]map[string]any{}
	for _, o := range env.OwnedChildren() {
		owned[ObjID(o)] = o
	}
	for id := range desired {
		if _, ok := owned[id]; !ok {
			return vs.Violf("C01/desired-child-missing", "at the fixpoint the parent does not own desired child %s (owned: %v)%s", id, SortedKeys(owned), tail())
		}
	}
	for id := range owned {
		if _, ok := desired[id]; !ok {
			return vs.Violf("C01/undesired-child-owned", "at the fixpoint the parent still owns %s, which the hook does not desire (desired: %v)%s", id, SortedKeys(desired), tail())
		}
	}
	// (2) every specified field has the specified value where updates are permitted
	for id, want := range desired {
		d := env.W.Sim.DefByKind(want["apiVersion"].(string), want["kind"].(string))
		if !scn.Cfg.SSA && !methodPermitsUpdate(scn.Cfg.MethodOf(d.Resource)) {
			continue
		}
		if ok, why := Contains(owned[id], want); !ok {
			if scn.Cfg.SSA && strings.HasPrefix(scn.Cfg.MethodOf(d.Resource), "Rolling") {
				// under SSA the "is this child up to date" test of the rollout gate compares
				// against a dynamic-apply result (with last-applied annotation) and never holds
				if e := c.Known(vs.Violf("C01/ssa-rolling-update-stalls", "%s (rolling strategy under server-side apply): the rollout never gets past its first child: %s; parent status %v", id, why, parent["status"])); e != nil {
					return e
				}
				continue
			}
			if !scn.Cfg.SSA && scn.Cfg.GenerateSelector && strings.HasPrefix(scn.Cfg.MethodOf(d.Resource), "Rolling") {
				// the controller-uid label is injected into desired children only after the rollout
				// gate ran, so the gate always sees "label would be removed" => not up to date
				if e := c.Known(vs.Violf("C01/generateselector-rolling-update-stalls", "%s (rolling strategy with generateSelector): the rollout never gets past its first child: %s; parent status %v", id, why, parent["status"])); e != nil {
					return e
				}
				continue
			}
			if scn.Cfg.SSA && d.NoGeneration {
				// the SSA memo keys on metadata.generation, which kinds like ConfigMap never set
				if e := c.Known(vs.Violf("C01/ssa-drift-not-repaired-without-generation", "%s (a kind without metadata.generation) under server-side apply: drift is never repaired: %s", id, why)); e != nil {
					return e
				}
				continue
			}
			return vs.Violf("C01/field-not-converged", "%s: at the fixpoint a field the hook specified differs: %s\nlive=%v\nwant=%v%s", id, why, owned[id], want, tail())
		}
	}
	if v := env.SharedStateViolation(); v != nil {
		return v
	}
	return nil
}

// childWrites: mutating requests on anything but the parent and its
// ControllerRevisions (bookkeeping objects, not children).
func childWrites(e *Env, t *SyncTrace) []*vs.Request {
	var out []*vs.Request
	for _, r := range t.Writes() {
		if r.Def.Resource == e.Scn.Cfg.ParentResource || r.Def.Resource == "controllerrevisions" {
			continue
		}
		out = append(out, r)
	}
	return out
}
