package verifworld

import (
	"fmt"
	metav1 "k8s.io/apimachinery/pkg/apis/meta/v1"
	"strings"

	vs "metacontroller/pkg/internal/verifsim"
)

// PropC06: each child type is changed only by the method its update strategy
// allows (dynamic apply). One sync under test, caches fresh.
func PropC06(c *vs.Case, f Factory, kind string) error {
	scn := GenScn(c, GenOpts{Kind: kind, AllowRolling: true, AllowUnknown: true})
	if c.Prob(1, 4) {
		// debug verbosity: the V(5) code paths (diff rendering etc.) run too
		SetVerboseLogging(true)
		defer SetVerboseLogging(false)
		c.Class("verbose-logging")
	}
	scn.Prog.Ordered = false
	// hooks sometimes echo status / system metadata back in their desired children;
	// metacontroller must ignore both (no diff, no write)
	for i := range scn.Prog.Children {
		if c.Prob(1, 4) {
			scn.Prog.Children[i].Fields["status"] = map[string]any{"phase": "FromHook", "n": int64(1)}
			c.Class("desired-carries-status")
		}
	}
	for i := range scn.Prog.Children {
		if sp, ok := scn.Prog.Children[i].Fields["spec"].(map[string]any); ok && c.Prob(1, 4) {
			// an explicitly empty list where others may inject name-keyed entries
			sp["ports"] = []any{}
			c.Class("desired-has-empty-list")
		}
	}
	scn.Cfg.SSA = false
	scn.Cfg.FinalizeHook = false
	env, err := NewEnv(scn, f)
	if err != nil {
		return fmt.Errorf("harness: %v", err)
	}
	c.Describe(func() any { return scn })
	// phase 1: let the controller create its children (two syncs: finalizer/status settle)
	for i := 0; i < 2; i++ {
		t := env.SyncFresh()
		if t.Panic != "" {
			return vs.Violf("C06/panic", "panic during setup sync: %s", t.Panic)
		}
	}
	// phase 2: perturb children and the program
	type pert struct {
		obj  string
		what string
	}
	var perts []pert
	owned := OwnedBy(env.W.Sim, env.ChildResources(), env.ParentUID)
	for _, o := range owned {
		res := env.W.Sim.DefByKind(o["apiVersion"].(string), o["kind"].(string)).Resource
		ns, name := metaStr(o, "namespace"), metaStr(o, "name")
		switch c.Weighted(3, 3, 2, 2, 1, 2, 1, 1) {
		case 7: // someone already set the very field (and value) the hook may start asking for below
			env.W.Sim.ExtUpdate(res, ns, name, func(obj map[string]any) {
				if res == "configmaps" {
					obj["data"].(map[string]any)["added"] = "new"
				} else {
					obj["spec"].(map[string]any)["added"] = "new"
				}
			})
			perts = append(perts, pert{ObjID(o), "foreign-sets-future-desired-field"})
		case 0:
			perts = append(perts, pert{ObjID(o), "none"})
		case 1: // owned field drifts
			env.W.Sim.ExtUpdate(res, ns, name, func(obj map[string]any) {
				if res == "configmaps" {
					obj["data"].(map[string]any)["v"] = "drifted"
				} else {
					obj["spec"].(map[string]any)["v"] = "drifted"
				}
			})
			perts = append(perts, pert{ObjID(o), "owned-field-drift"})
		case 2: // foreign field added
			env.W.Sim.ExtUpdate(res, ns, name, func(obj map[string]any) {
				if res == "configmaps" {
					obj["data"].(map[string]any)["foreign"] = "f"
				} else {
					obj["spec"].(map[string]any)["foreign"] = map[string]any{"a": int64(1)}
					if _, has := obj["spec"].(map[string]any)["ports"]; has {
						obj["spec"].(map[string]any)["ports"] = []any{map[string]any{"name": "injected", "port": int64(8080)}}
					}
				}
				metaOfMap(obj)["labels"].(map[string]any)["foreign-label"] = "z"
			})
			perts = append(perts, pert{ObjID(o), "foreign-field"})
		case 3: // status / system metadata only
			env.W.Sim.ExtUpdate(res, ns, name, func(obj map[string]any) {
				obj["status"] = map[string]any{"phase": "Running", "observedGeneration": int64(7)}
			})
			perts = append(perts, pert{ObjID(o), "status-only"})
		case 4: // pending deletion (blocked by a foreign finalizer)
			env.W.Sim.ExtUpdate(res, ns, name, func(obj map[string]any) {
				metaOfMap(obj)["finalizers"] = []any{"example.com/hold"}
			})
			env.W.Sim.ExtDelete(res, ns, name, "")
			perts = append(perts, pert{ObjID(o), "pending-deletion"})
		case 5: // pending deletion AND drift
			env.W.Sim.ExtUpdate(res, ns, name, func(obj map[string]any) {
				metaOfMap(obj)["finalizers"] = []any{"example.com/hold"}
				if res == "configmaps" {
					obj["data"].(map[string]any)["v"] = "drifted"
				} else {
					obj["spec"].(map[string]any)["v"] = "drifted"
				}
			})
			env.W.Sim.ExtDelete(res, ns, name, "")
			perts = append(perts, pert{ObjID(o), "pending-deletion+drift"})
		default: // removed by someone
			env.W.Sim.Purge(res, ns, name)
			perts = append(perts, pert{ObjID(o), "deleted"})
		}
	}
	progChange := c.Weighted(3, 3, 2, 2)
	switch progChange {
	case 1: // desired content changes
		for i := range scn.Prog.Children {
			f := scn.Prog.Children[i].Fields
			if d, ok := f["data"].(map[string]any); ok {
				d["added"] = "new"
			}
			if s, ok := f["spec"].(map[string]any); ok {
				s["added"] = "new"
			}
		}
	case 2: // a child is no longer desired
		for i := range scn.Prog.Children {
			if len(scn.Prog.Children[i].Names) > 0 {
				scn.Prog.Children[i].Names = scn.Prog.Children[i].Names[1:]
				break
			}
		}
	case 3: // an additional child is desired
		scn.Prog.Children[0].Names = append(scn.Prog.Children[0].Names, "extra-child")
	}
	c.Describe(func() any {
		return map[string]any{"scenario": scn, "perturbations": fmt.Sprint(perts), "programChange": progChange}
	})

	// the sync under test
	env.W.SyncAll()
	parent := env.Parent()
	desired := map[string]map[string]any{}
	var desiredList []map[string]any
	for _, dch := range scn.Prog.DesiredAll(env.W.Sim, parent) {
		n := env.NormalizeDesired(dch)
		desired[ObjID(n)] = n
		desiredList = append(desiredList, n)
	}
	pre := OwnedBy(env.W.Sim, env.ChildResources(), env.ParentUID)
	// the cache may not have caught up with one owned child yet (it exists on the server only)
	c06Unobserved = ""
	if len(pre) > 0 && c.Prob(1, 6) {
		o := pre[c.Int(len(pre))]
		d := env.W.Sim.DefByKind(o["apiVersion"].(string), o["kind"].(string))
		key := metaStr(o, "name")
		if ns := metaStr(o, "namespace"); ns != "" {
			key = ns + "/" + key
		}
		if item, ok, _ := env.W.Indexers[d.Resource].GetByKey(key); ok {
			_ = env.W.Indexers[d.Resource].Delete(item)
			c06Unobserved = ObjID(o)
			c.Class("owned-child-missing-from-cache")
		}
	}
	// The server may refuse the in-place PUT of a child (validation of an immutable field, a conflict, an
	// admission webhook, an internal error). Whatever the refusal, the strategy still decides the verb: a refused
	// PUT is not answered with a DELETE, and the other children are handled as ever.
	if c.Prob(1, 5) {
		codes := []struct {
			code   int
			reason metav1.StatusReason
		}{{422, metav1.StatusReasonInvalid}, {409, metav1.StatusReasonConflict}, {403, metav1.StatusReasonForbidden},
			{500, metav1.StatusReasonInternalError}, {400, metav1.StatusReasonBadRequest}}
		pick := codes[c.Int(len(codes))]
		childRes := map[string]bool{}
		for _, r := range env.ChildResources() {
			childRes[r] = true
		}
		env.W.Sim.Before = func(r *vs.Request) *vs.Fault {
			isParent := r.Def.Name() == scn.Cfg.ParentResource && r.Name == scn.ParentName()
			if r.Verb == "update" && r.Subresource == "" && childRes[r.Def.Name()] && !isParent {
				return &vs.Fault{Code: pick.code, Reason: pick.reason}
			}
			return nil
		}
		c.Class("child-put-refused-%d", pick.code)
	}
	t := env.Sync()
	env.W.Sim.Before = nil
	if t.Panic != "" {
		return vs.Violf("C06/panic", "panic: %s", t.Panic)
	}
	// judge against what the hook really answered in this sync (it may echo parts of what it observed)
	if fromHook, ok := env.DesiredFromTrace(t); ok {
		desired = map[string]map[string]any{}
		desiredList = nil
		for _, n := range fromHook {
			desired[ObjID(n)] = n
			desiredList = append(desiredList, n)
		}
	}
	err = propC06Judge(c, env, scn, t, pre, desired, desiredList)
	if v, ok := err.(*vs.Violation); ok {
		v.Msg += "\ntrace of the sync under test:\n  " + strings.Join(t.Summary(), "\n  ")
	}
	return err
}

// c06Unobserved: the owned child (ObjID) that was removed from the cache before the sync under test.
var c06Unobserved string

func propC06Judge(c *vs.Case, env *Env, scn *Scn, t *SyncTrace, pre []map[string]any, desired map[string]map[string]any, desiredList []map[string]any) error {
	recreated := map[string]map[string]any{}
	expectErr := false
	for _, o := range pre {
		d := env.W.Sim.DefByKind(o["apiVersion"].(string), o["kind"].(string))
		ws := t.WritesOn(d.Resource, metaStr(o, "namespace"), metaStr(o, "name"))
		id := ObjID(o)
		method := scn.Cfg.MethodOf(d.Resource)
		c.Class("method-%s", orStr(method, "unset"))
		if id == c06Unobserved {
			// the sync did not see this child: at most a create that the server refuses (it exists already);
			// nothing may be changed on the strength of an object the sync never observed
			for _, w := range ws {
				if w.Accepted() {
					return vs.Violf("C06/write-to-unobserved-child", "%s exists on the server but was not in the cache the sync acted on; still %s was accepted (method %q)", id, w.String(), method)
				}
			}
			continue
		}
		want, isDesired := desired[id]
		if !isDesired {
			if IsDeleting(o) {
				if len(ws) != 0 {
					return vs.Violf("C06/write-to-deleting-undesired", "%s is pending deletion and no longer desired but got %v", id, reqStrs(ws))
				}
				continue
			}
			if len(ws) != 1 || ws[0].Verb != "delete" {
				return vs.Violf("C06/undesired-not-deleted", "%s is owned and no longer desired: want exactly one DELETE, got %v", id, reqStrs(ws))
			}
			if e := checkDeleteOpts(ws[0], o); e != nil {
				return e
			}
			c.Class("undesired-deleted")
			continue
		}
		ref, ok, clash := vs.RefApplyUpdate(o, want)
		if clash || !ok {
			continue
		}
		if vs.JSONEqual(ref, o) {
			c.Class("already-matches")
			if len(ws) != 0 {
				return vs.Violf("C06/write-to-matching-child", "%s already matches its merged desired state but got %v", id, reqStrs(ws))
			}
			continue
		}
		c.NonTrivial()
		if IsDeleting(o) {
			c.Class("differs-but-pending-deletion")
			if len(ws) != 0 {
				return vs.Violf("C06/write-to-deleting-child", "%s is pending deletion but got %v", id, reqStrs(ws))
			}
			continue
		}
		switch method {
		case "", "OnDelete":
			if len(ws) != 0 {
				return vs.Violf("C06/ondelete-touched", "%s differs; method %q allows neither update nor delete, got %v", id, method, reqStrs(ws))
			}
		case "Recreate", "RollingRecreate":
			if len(ws) != 1 || ws[0].Verb != "delete" {
				return vs.Violf("C06/recreate-wrong-verb", "%s differs; method %s wants exactly one DELETE, got %v", id, method, reqStrs(ws))
			}
			if e := checkDeleteOpts(ws[0], o); e != nil {
				return e
			}
			if ws[0].Accepted() && ws[0].Post == nil {
				recreated[id] = want
			}
		case "InPlace", "RollingInPlace":
			if len(ws) != 1 || ws[0].Verb != "update" || ws[0].Subresource != "" {
				return vs.Violf("C06/inplace-wrong-verb", "%s differs; method %s wants exactly one PUT, got %v", id, method, reqStrs(ws))
			}
			if !vs.JSONEqual(stripRV(ws[0].Body), stripRV(ref)) {
				return vs.Violf("C06/inplace-wrong-body", "%s: PUT body differs from the reference merge\nbody=%v\nref =%v", id, ws[0].Body, ref)
			}
		default:
			expectErr = true
			if len(ws) != 0 {
				return vs.Violf("C06/unknown-method-wrote", "%s differs; unknown method %q must not write, got %v", id, method, reqStrs(ws))
			}
		}
	}
	for _, want := range desiredList {
		if FindIn(pre, want) != nil {
			continue
		}
		d := env.W.Sim.DefByKind(want["apiVersion"].(string), want["kind"].(string))
		ws := t.WritesOn(d.Resource, metaStr(want, "namespace"), metaStr(want, "name"))
		if len(ws) != 1 || ws[0].Verb != "create" {
			return vs.Violf("C06/missing-not-created", "%s is desired and absent: want exactly one POST, got %v", ObjID(want), reqStrs(ws))
		}
		c.Class("missing-created")
	}
	if expectErr && t.Err == nil {
		return vs.Violf("C06/unknown-method-no-error", "a child with an unknown update method differs but sync returned no error")
	}
	// Recreate: the POST follows on the next sync
	if len(recreated) > 0 {
		t2 := env.SyncFresh()
		if t2.Panic != "" {
			return vs.Violf("C06/panic", "panic: %s", t2.Panic)
		}
		for id, want := range recreated {
			d := env.W.Sim.DefByKind(want["apiVersion"].(string), want["kind"].(string))
			ws := t2.WritesOn(d.Resource, metaStr(want, "namespace"), metaStr(want, "name"))
			if len(ws) != 1 || ws[0].Verb != "create" {
				return vs.Violf("C06/not-recreated", "%s was deleted for recreation but the next sync issued %v", id, reqStrs(ws))
			}
		}
		c.Class("recreated-next-sync")
	}
	if v := env.SharedStateViolation(); v != nil {
		return v
	}
	return nil
}

func metaOfMap(obj map[string]any) map[string]any {
	m, _ := obj["metadata"].(map[string]any)
	if m == nil {
		m = map[string]any{}
		obj["metadata"] = m
	}
	if _, ok := m["labels"].(map[string]any); !ok {
		m["labels"] = map[string]any{}
	}
	return m
}

func orStr(s, d string) string {
	if s == "" {
		return d
	}
	return s
}

func reqStrs(rs []*vs.Request) []string {
	out := []string{}
	for _, r := range rs {
		out = append(out, r.String())
	}
	return out
}

func stripRV(o map[string]any) map[string]any {
	c := vs.CopyMap(o)
	if m, ok := c["metadata"].(map[string]any); ok {
		delete(m, "resourceVersion")
	}
	return c
}

// checkDeleteOpts: every child delete carries the observed UID as a
// precondition and asks for background propagation.
func checkDeleteOpts(r *vs.Request, observed map[string]any) error {
	pre, _ := r.Body["preconditions"].(map[string]any)
	uid, _ := pre["uid"].(string)
	if uid == "" || uid != metaStr(observed, "uid") {
		return vs.Violf("C06/delete-without-uid-precondition", "%s: delete options %v lack the UID precondition of the observed object (%s)", r.String(), r.Body, metaStr(observed, "uid"))
	}
	if pp, _ := r.Body["propagationPolicy"].(string); pp != "Background" {
		return vs.Violf("C06/delete-not-background", "%s: propagationPolicy=%q, want Background", r.String(), pp)
	}
	return nil
}
