package verifworld

import (
	"fmt"

	vs "metacontroller/pkg/internal/verifsim"
)

// PropC11: parent status = hook status + observedGeneration; nothing else is touched.
func PropC11(c *vs.Case, f Factory) error {
	scn := GenScn(c, GenOpts{Kind: "composite", AllowRolling: false, AllowFinalize: true})
	scn.Cfg.SSA = false
	scn.Prog.StatusMode = c.Int(5)
	if c.Prob(1, 6) {
		// a hook that says "finalized" in every answer, sync answers included
		scn.Prog.SyncFinalized = true
		c.Class("sync-answer-says-finalized")
	}
	if c.Prob(1, 4) {
		scn.Prog.ResyncAfter = 5 // the hook asks to be called again later: a delayed re-queue of the same parent
		c.Class("hook-asks-for-resync")
	}
	env, err := NewEnv(scn, f)
	if err != nil {
		return fmt.Errorf("harness: %v", err)
	}
	if pd := env.W.Sim.Def(scn.Cfg.ParentResource); pd != nil && pd.HasStatus && c.Prob(1, 5) {
		// the parent's CRD gained its status subresource only after this process had looked the resource up
		// once (for another controller, say); discovery has been refreshed since, and the controller is built
		// afterwards: it must use the status endpoint, like every controller built after that refresh
		env.W.Sim.SetHasStatus(scn.Cfg.ParentResource, false)
		if err := env.Restart(); err != nil { // the process starts (and builds a first controller instance) in those days
			return fmt.Errorf("harness: %v", err)
		}
		_, _ = env.W.DynClient.Resource(pd.APIVersion(), scn.Cfg.ParentResource)
		env.W.Sim.SetHasStatus(scn.Cfg.ParentResource, true)
		env.W.Resources.VerifRefresh()
		if err := env.Rebuild(); err != nil {
			return fmt.Errorf("harness: %v", err)
		}
		c.Class("status-subresource-appeared-after-first-lookup")
	}
	// a parent with labels/annotations/owner data that must survive status writes
	env.W.Sim.ExtUpdate(scn.Cfg.ParentResource, scn.ParentNS(), scn.ParentName(), func(o map[string]any) {
		m := metaOfMap(o)
		m["labels"].(map[string]any)["team"] = "a"
		m["annotations"] = map[string]any{"note": "keep"}
		m["ownerReferences"] = []any{map[string]any{"apiVersion": "v1", "kind": "ConfigMap", "name": "owner", "uid": "uid-owner"}}
	})
	var log []string
	c.Describe(func() any { return map[string]any{"scenario": scn, "steps": log} })
	env.W.SyncAll()
	steps := 2 + c.Int(4)
	for s := 0; s < steps; s++ {
		// environment: edit the live parent, possibly invisible to the cache
		switch c.Weighted(4, 2, 1, 1, 1) {
		case 4:
			// the user deletes the parent; with a finalize hook the controller's finalizer keeps it around, and its
			// status is still the hook's business
			if cur := env.Parent(); cur != nil && !IsDeleting(cur) && scn.Cfg.FinalizeHook {
				scn.Prog.FinalizeMode = 1
				scn.Prog.FinalizedMode = 2
				scn.Prog.Install(env.W, scn.Cfg.Kind)
				env.W.Sim.ExtDelete(scn.Cfg.ParentResource, scn.ParentNS(), scn.ParentName(), "")
				log = append(log, "parent deleted (finalizing)")
				c.Class("parent-finalizing")
			}
		case 1:
			env.W.Sim.ExtUpdate(scn.Cfg.ParentResource, scn.ParentNS(), scn.ParentName(), func(o map[string]any) {
				spec := o["spec"].(map[string]any)
				if spec["other"] == "o1" {
					spec["other"] = "o2"
				} else {
					spec["other"] = "o1"
				}
			})
			log = append(log, "live spec edited")
		case 2:
			env.W.Sim.Purge(scn.Cfg.ParentResource, scn.ParentNS(), scn.ParentName())
			env.W.Sim.ExtCreate(scn.Cfg.ParentResource, scn.Parent)
			log = append(log, "live parent replaced")
		case 3:
			env.W.Sim.ExtUpdate(scn.Cfg.ParentResource, scn.ParentNS(), scn.ParentName(), func(o map[string]any) {
				o["status"] = map[string]any{"someone": "else", "observedGeneration": int64(1)}
			})
			log = append(log, "live status overwritten by someone")
		}
		staleParent := false
		for _, r := range env.W.ResourceNames() {
			if r == scn.Cfg.ParentResource && c.Prob(1, 3) {
				staleParent = true
				continue
			}
			env.W.SyncCache(r)
		}
		// fault plan
		fault := c.Weighted(4, 2, 1, 1, 1, 2)
		faultName := []string{"none", "conflict-on-status-put", "parent-deleted-before-status-put", "500-on-status-put", "replaced-before-status-put", "500-on-child-write"}[fault]
		fired := false
		env.W.Sim.Before = func(r *vs.Request) *vs.Fault {
			if fired {
				return nil
			}
			isStatusPut := r.Def.Resource == scn.Cfg.ParentResource && r.Verb == "update" && r.Subresource == "status"
			isChildWrite := r.Mutating() && r.Def.Resource != scn.Cfg.ParentResource && r.Def.Resource != "controllerrevisions"
			switch {
			case fault == 1 && isStatusPut:
				fired = true
				env.W.Sim.ExtUpdate(scn.Cfg.ParentResource, scn.ParentNS(), scn.ParentName(), func(o map[string]any) {
					metaOfMap(o)["labels"].(map[string]any)["bumped"] = fmt.Sprint(r.Seq)
				})
			case fault == 2 && isStatusPut:
				fired = true
				env.W.Sim.Purge(scn.Cfg.ParentResource, scn.ParentNS(), scn.ParentName())
			case fault == 3 && isStatusPut:
				fired = true
				return &vs.Fault{Code: 500, Reason: "InternalError", Message: "injected"}
			case fault == 4 && isStatusPut:
				fired = true
				env.W.Sim.Purge(scn.Cfg.ParentResource, scn.ParentNS(), scn.ParentName())
				env.W.Sim.ExtCreate(scn.Cfg.ParentResource, scn.Parent)
			case fault == 5 && isChildWrite:
				fired = true
				return &vs.Fault{Code: 500, Reason: "InternalError", Message: "injected"}
			}
			return nil
		}
		cachedU := env.W.CachedObject(scn.Cfg.ParentResource, scn.ParentNS(), scn.ParentName())
		t := env.Sync()
		env.W.Sim.Before = nil
		log = append(log, fmt.Sprintf("sync (stale parent cache=%v, fault=%s fired=%v) err=%v", staleParent, faultName, fired, t.Err))
		c.Class("fault:%s fired=%v", faultName, fired)
		if t.Panic != "" {
			return vs.Violf("C11/panic", "panic: %s", t.Panic)
		}
		if cachedU == nil {
			continue
		}
		cachedUID := string(cachedU.GetUID())
		// general rules over every accepted write to the parent resource
		var statusPuts []*vs.Request
		for _, r := range t.Reqs {
			if r.Def.Resource != scn.Cfg.ParentResource || !r.Mutating() {
				continue
			}
			if r.Subresource == "status" {
				statusPuts = append(statusPuts, r)
			}
			if !r.Accepted() || r.Pre == nil || r.Post == nil {
				continue
			}
			if metaStr(r.Pre, "uid") != cachedUID {
				return withTrace(vs.Violf("C11/wrote-replaced-parent", "%s wrote a same-named parent with UID %s; the sync observed UID %s", r.String(), metaStr(r.Pre, "uid"), cachedUID), t)
			}
			a, b := stripServerFields(r.Pre), stripServerFields(r.Post)
			if r.Subresource == "status" {
				delete(a, "status")
				delete(b, "status")
				delete(a["metadata"].(map[string]any), "generation")
				delete(b["metadata"].(map[string]any), "generation")
				if !vs.JSONEqual(a, b) {
					return withTrace(vs.Violf("C11/status-write-touched-more", "%s changed more than .status\npre =%v\npost=%v", r.String(), a, b), t)
				}
			} else {
				// the only other legal parent write: adding/removing the controller's finalizer
				delete(a["metadata"].(map[string]any), "finalizers")
				delete(b["metadata"].(map[string]any), "finalizers")
				if !vs.JSONEqual(a, b) {
					return withTrace(vs.Violf("C11/parent-main-endpoint-write", "%s changed the parent outside .status / finalizers\npre =%v\npost=%v", r.String(), a, b), t)
				}
			}
		}
		// did the sync get as far as reconciling children?
		var hook *HookExchange
		for _, h := range t.Hooks {
			if h.URL != CustomizeURL && h.Response.Code == 200 {
				hook = h
			}
		}
		if hook == nil {
			continue
		}
		finalizerRemoved := false
		for _, r := range t.Reqs {
			if r.Def.Resource == scn.Cfg.ParentResource && r.Verb == "update" && r.Subresource == "" && r.Accepted() && r.Pre != nil &&
				!vs.JSONEqual(metaOfMap(vs.CopyMap(r.Pre))["finalizers"], metaOfMap(vs.CopyMap(r.Post))["finalizers"]) {
				finalizerRemoved = true // finalizer edit: the code continues with the fresh parent
			}
		}
		resp, _ := vs.DecodeJSON(hook.Response.Body)
		want, _ := resp["status"].(map[string]any)
		if want == nil {
			want = map[string]any{}
		}
		sentParent, _ := hook.Request["parent"].(map[string]any)
		sentGen := metaOfMap(sentParent)["generation"]
		want["observedGeneration"] = sentGen
		// the parent as it is at the end of the sync
		live := env.Parent()
		if fault == 5 && fired {
			// the status write must still be attempted (judged below like any other sync)
			c.Class("child-write-failed")
		}
		if live == nil || metaStr(live, "uid") != cachedUID {
			// parent gone or replaced: nothing must have been written to the new one (checked above)
			continue
		}
		// a finalizer edit hands the code a freshly read parent; the status still reports the generation sent to the hook
		statusOK := func(st any) bool { return vs.JSONEqual(st, want) }
		if finalizerRemoved {
			c.Class("finalizer-edited-in-this-sync")
		}
		switch {
		case fault == 3 && fired:
			if t.Err == nil {
				return withTrace(vs.Violf("C11/status-error-swallowed", "the status write failed with 500 but the sync returned no error"), t)
			}
			continue
		}
		preStatusEqual := false
		// find the pre-state of the first status PUT or, if none, the live object
		if len(statusPuts) == 0 {
			preStatusEqual = statusOK(live["status"])
			if !preStatusEqual {
				return withTrace(vs.Violf("C11/status-not-written", "hook status %v (with observedGeneration %v) differs from the live status %v but no status write was attempted", resp["status"], sentGen, live["status"]), t)
			}
			c.Class("status-already-equal")
			continue
		}
		c.NonTrivial()
		for _, r := range statusPuts {
			if r.Accepted() && vs.JSONEqual(r.Pre["status"], r.Body["status"]) && vs.JSONEqual(stripServerFields(r.Pre), stripServerFields(r.Post)) {
				return withTrace(vs.Violf("C11/redundant-status-write", "%s sent although the status was already equal", r.String()), t)
			}
		}
		if !statusOK(live["status"]) {
			lastPut := statusPuts[len(statusPuts)-1]
			return withTrace(vs.Violf("C11/status-wrong", "after the sync the parent status is %v, want %v (hook status %v, generation sent to the hook %v; last status write: %s)", live["status"], want, resp["status"], sentGen, lastPut.String()), t)
		}
		// conflict => fresh read before the retry
		for i, r := range t.Reqs {
			if r.Def.Resource == scn.Cfg.ParentResource && r.Subresource == "status" && r.Code == 409 {
				c.Class("status-conflict-retried")
				if i+2 >= len(t.Reqs) || t.Reqs[i+1].Verb != "get" || t.Reqs[i+1].Def.Resource != scn.Cfg.ParentResource {
					return withTrace(vs.Violf("C11/conflict-retry-without-fresh-read", "%s was not followed by a fresh GET of the parent", r.String()), t)
				}
			}
		}
	}
	if v := env.SharedStateViolation(); v != nil {
		return v
	}
	return nil
}
