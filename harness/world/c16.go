package verifworld

import (
	"fmt"

	vs "metacontroller/pkg/internal/verifsim"
)

func strPtr(s string) *string { return &s }

func genStringMapPatch(c *vs.Case, existing map[string]string, own string) map[string]*string {
	if c.Prob(1, 5) {
		return nil
	}
	out := map[string]*string{}
	n := c.Int(4)
	keys := []string{own, own + "-2", "foreign", "shared", "team"}
	for i := 0; i < n; i++ {
		k := keys[c.Int(len(keys))]
		switch c.Int(4) {
		case 0:
			out[k] = nil
		case 1:
			out[k] = strPtr("v1")
		case 2:
			out[k] = strPtr("") // a marker label / annotation: present, with an empty value
		default:
			out[k] = strPtr("v2")
		}
	}
	_ = existing
	return out
}

// PropC16: a decorator changes only labels, annotations, status and finalizer of its target.
func PropC16(c *vs.Case, f Factory) error {
	scn := GenScn(c, GenOpts{Kind: "decorator", AllowFinalize: true})
	scn.Prog.Ordered = false
	// selectors of the resource rule
	selMode := c.Int(4)
	if selMode&1 == 1 {
		scn.Cfg.ParentSelector = map[string]string{"enabled": "yes"}
	}
	if selMode&2 == 2 {
		scn.Cfg.ParentAnnSel = map[string]string{"decorate": "please"}
	}
	if selMode != 0 && c.Bool() {
		scn.Cfg.SelAsExpressions = true
		c.Class("selectors-as-expressions")
	}
	meta := metaOfMap(scn.Parent)
	lbl := map[string]any{"foreign": "f", "team": "a"}
	ann := map[string]any{"foreign": "f"}
	if c.Prob(3, 4) {
		lbl["enabled"] = "yes"
	}
	if c.Prob(3, 4) {
		ann["decorate"] = "please"
	}
	meta["labels"] = lbl
	meta["annotations"] = ann
	if c.Bool() {
		meta["finalizers"] = []any{"example.com/other"}
	}
	if c.Bool() {
		meta["ownerReferences"] = []any{map[string]any{"apiVersion": "v1", "kind": "ConfigMap", "name": "o", "uid": "uid-o"}}
	}
	if c.Bool() {
		scn.Parent["status"] = map[string]any{"phase": "Old", "n": int64(1)}
	}
	scn.Prog.Labels = genStringMapPatch(c, nil, "decorated")
	scn.Prog.Annotations = genStringMapPatch(c, nil, "decorated")
	scn.Prog.DecStatus = c.Int(3)
	env, err := NewEnv(scn, f)
	if err != nil {
		return fmt.Errorf("harness: %v", err)
	}
	if st, ok := scn.Parent["status"]; ok {
		env.W.Sim.ExtUpdate(scn.Cfg.ParentResource, scn.ParentNS(), scn.ParentName(), func(o map[string]any) { o["status"] = st })
	}
	seeds := SeedStore(c, env, SeedOpts{ForeignOnDesiredName: true, Max: 4})
	var log []string
	c.Describe(func() any { return map[string]any{"scenario": scn, "seeds": seeds, "steps": log} })
	fin := scn.Cfg.FinalizerName()
	pd := env.W.Sim.Def(scn.Cfg.ParentResource)
	steps := 2 + c.Int(4)
	// directed arm: the decorator is about to add its finalizer for the first time while its cached copy of
	// the target lists other finalizers than the live object does
	directed := scn.Cfg.FinalizeHook && c.Prob(1, 5)
	if directed {
		env.W.SyncAll()
		c.Class("directed:first-finalizer-add-on-stale-cache")
	}
	for s := 0; s < steps; s++ {
		edited := false
		op := c.Weighted(5, 2, 2, 1, 1, 1, 1, 1)
		if directed && s == 0 {
			op = 7
		}
		switch op {
		case 7: // someone else's finalizer comes or goes on the live target
			env.W.Sim.ExtUpdate(scn.Cfg.ParentResource, scn.ParentNS(), scn.ParentName(), func(o map[string]any) {
				m := metaOfMap(o)
				fs, _ := m["finalizers"].([]any)
				var keep []any
				had := false
				for _, f := range fs {
					if f == "example.com/other" {
						had = true
						continue
					}
					keep = append(keep, f)
				}
				if !had {
					keep = append(keep, "example.com/other")
				}
				if len(keep) == 0 {
					delete(m, "finalizers")
				} else {
					m["finalizers"] = keep
				}
			})
			log = append(log, "foreign finalizer toggled on the live target")
			c.Class("foreign-finalizer-toggled")
			edited = true
		case 5: // the user deletes the target (it lingers while finalizers hold it)
			if cur := env.Parent(); cur != nil && !IsDeleting(cur) {
				env.W.Sim.ExtDelete(scn.Cfg.ParentResource, scn.ParentNS(), scn.ParentName(), "")
				log = append(log, "target deleted")
				c.Class("target-deleted")
				edited = true
			}
		case 6: // the target is deleted and re-created under the same name (new UID), maybe no longer selected
			env.W.Sim.Purge(scn.Cfg.ParentResource, scn.ParentNS(), scn.ParentName())
			np := vs.CopyMap(scn.Parent)
			if c.Bool() {
				delete(metaOfMap(np)["labels"].(map[string]any), "enabled")
				if a, ok := metaOfMap(np)["annotations"].(map[string]any); ok {
					delete(a, "decorate")
				}
			}
			if created, err := env.W.Sim.ExtCreate(scn.Cfg.ParentResource, np); err == nil {
				env.ParentUID = metaStr(created, "uid")
				log = append(log, "target replaced by a new object of the same name")
				c.Class("target-replaced")
				edited = true
			}
		case 4: // the finalize hook is added to / removed from the decorator
			scn.Cfg.FinalizeHook = !scn.Cfg.FinalizeHook
			if err := env.Restart(); err != nil {
				return fmt.Errorf("harness: %v", err)
			}
			log = append(log, fmt.Sprintf("controller rebuilt, finalize hook=%v", scn.Cfg.FinalizeHook))
		case 1: // someone edits the target's labels/annotations (may match / unmatch the selectors)
			env.W.Sim.ExtUpdate(scn.Cfg.ParentResource, scn.ParentNS(), scn.ParentName(), func(o map[string]any) {
				m := metaOfMap(o)
				l := m["labels"].(map[string]any)
				if l["enabled"] == "yes" {
					delete(l, "enabled")
				} else {
					l["enabled"] = "yes"
				}
			})
			log = append(log, "toggle enabled label")
			edited = true
		case 2: // the hook changes its mind
			scn.Prog.Labels = genStringMapPatch(c, nil, "decorated")
			scn.Prog.Annotations = genStringMapPatch(c, nil, "decorated")
			scn.Prog.DecStatus = c.Int(3)
			scn.Prog.Install(env.W, "decorator")
			log = append(log, "hook answer changed")
		case 3:
			env.W.Sim.ExtUpdate(scn.Cfg.ParentResource, scn.ParentNS(), scn.ParentName(), func(o map[string]any) {
				o["spec"].(map[string]any)["other"] = fmt.Sprintf("edit%d", s)
			})
			log = append(log, "spec edited")
			edited = true
		}
		stale := edited && (c.Prob(1, 3) || (directed && s == 0))
		if stale {
			// the controller's cache has not seen the latest edit of the target yet
			for _, r := range env.W.ResourceNames() {
				if r != scn.Cfg.ParentResource {
					env.W.SyncCache(r)
				}
			}
			log = append(log, "target cache is stale")
			c.Class("stale-target-cache")
		} else {
			env.W.SyncAll()
		}
		before := env.Parent()
		if before == nil {
			break
		}
		t := env.Sync()
		if t.Panic != "" {
			return vs.Violf("C16/panic", "panic: %s", t.Panic)
		}
		after := env.Parent()
		if err := judgeTargetWrites(env, t, fin); err != nil {
			return withTrace(err, t)
		}
		if stale {
			// decisions were taken on an old view: only the per-write rules apply
			continue
		}
		matches := env.controllerSelectorMatches(before)
		hasFin := hasFinalizer(before, fin)
		var calls []*HookExchange
		for _, h := range t.Hooks {
			if h.URL != CustomizeURL {
				calls = append(calls, h)
			}
		}
		var targetWrites []*vs.Request
		for _, r := range t.Reqs {
			if r.Mutating() && r.Def.Resource == scn.Cfg.ParentResource {
				targetWrites = append(targetWrites, r)
			}
		}
		log = append(log, fmt.Sprintf("sync: matches=%v finalizer=%v hookCalls=%d targetWrites=%d err=%v", matches, hasFin, len(calls), len(targetWrites), t.Err))
		if !matches && !hasFin {
			c.Class("not-selected")
			if len(calls) > 0 || len(t.Writes()) > 0 {
				return withTrace(vs.Violf("C16/decorated-unselected-object", "the target satisfies labelSelector=%v annotationSelector=%v only partly and carries no finalizer, but the sync called the hook %d times and wrote %v", scn.Cfg.ParentSelector, scn.Cfg.ParentAnnSel, len(calls), reqStrs(t.Writes())), t)
			}
			continue
		}
		if !matches && hasFin && !scn.Cfg.FinalizeHook {
			// only the leftover finalizer made it ours: it is removed and the object is left alone
			c.Class("leftover-finalizer-on-unselected-object")
			c.NonTrivial()
			if len(calls) > 0 {
				return withTrace(vs.Violf("C16/decorated-unselected-object", "the target no longer satisfies the selectors and only carried a leftover finalizer (no finalize hook): the hook must not be called, but it was (%d calls)", len(calls)), t)
			}
			if after != nil && t.Err == nil {
				a, b := stripServerFields(after), stripServerFields(before)
				for _, o := range []map[string]any{a, b} {
					m := o["metadata"].(map[string]any)
					delete(m, "finalizers")
					delete(m, "generation")
				}
				if !vs.JSONEqual(a, b) {
					return withTrace(vs.Violf("C16/target-changed-unexpectedly", "an unselected target was modified beyond the finalizer removal\nbefore=%v\nafter =%v", b, a), t)
				}
			}
			continue
		}
		if len(calls) == 0 || t.Err != nil || after == nil {
			continue
		}
		resp, _ := vs.DecodeJSON(calls[len(calls)-1].Response.Body)
		// expected target
		want := vs.CopyMap(before)
		wm := metaOfMap(want)
		apply := func(field string) {
			patch, _ := resp[field].(map[string]any)
			cur, _ := wm[field].(map[string]any)
			if cur == nil {
				cur = map[string]any{}
			}
			for k, v := range patch {
				if v == nil {
					delete(cur, k)
				} else {
					cur[k] = v
				}
			}
			if len(cur) == 0 {
				delete(wm, field)
			} else {
				wm[field] = cur
			}
		}
		apply("labels")
		apply("annotations")
		if st, ok := resp["status"].(map[string]any); ok {
			want["status"] = st
		}
		// finalizer bookkeeping
		fins, _ := wm["finalizers"].([]any)
		has := func() bool {
			for _, x := range fins {
				if x == fin {
					return true
				}
			}
			return false
		}
		if scn.Cfg.FinalizeHook && !has() && !IsDeleting(before) {
			fins = append(fins, fin)
		}
		if fz, _ := resp["finalized"].(bool); (fz && has()) || (!scn.Cfg.FinalizeHook && has()) {
			var keep []any
			for _, x := range fins {
				if x != fin {
					keep = append(keep, x)
				}
			}
			fins = keep
		}
		if len(fins) == 0 {
			delete(wm, "finalizers")
		} else {
			wm["finalizers"] = fins
		}
		if !vs.JSONEqual(stripServerFields(want), stripServerFields(before)) {
			c.NonTrivial()
		}
		a, b := stripServerFields(after), stripServerFields(want)
		for _, o := range []map[string]any{a, b} {
			delete(o["metadata"].(map[string]any), "generation")
			if st, ok := o["status"].(map[string]any); ok && len(st) == 0 {
				delete(o, "status")
			}
		}
		if !vs.JSONEqual(a, b) {
			return withTrace(vs.Violf("C16/target-changed-unexpectedly", "after the sync the target differs from 'before + named label/annotation keys + status + own finalizer'\nbefore=%v\nanswer=%v\nafter =%v\nwant  =%v", stripServerFields(before), resp, a, b), t)
		}
		if vs.JSONEqual(stripServerFields(want), stripServerFields(before)) && len(targetWrites) > 0 {
			return withTrace(vs.Violf("C16/write-although-nothing-changes", "the hook answer changes nothing on the target, yet %v was sent", reqStrs(targetWrites)), t)
		}
		// status goes through the status endpoint when there is one; the main endpoint never changes spec
		for _, r := range targetWrites {
			if r.Accepted() && r.Subresource == "" && r.Pre != nil && r.Post != nil && !vs.JSONEqual(r.Pre["spec"], r.Post["spec"]) {
				return withTrace(vs.Violf("C16/spec-modified", "%s changed the target's spec", r.String()), t)
			}
		}
		_ = pd
		// attachments of others are never written
		for _, r := range t.Reqs {
			if !r.Mutating() || !r.Accepted() || r.Def.Resource == scn.Cfg.ParentResource || r.Pre == nil {
				continue
			}
			// (the target the sync acted on: the one in its cache, which may be a replaced predecessor of the live one)
			actedOn := map[string]bool{metaStr(before, "uid"): true}
			if cu := FindIn(t.PreCache[scn.Cfg.ParentResource], before); cu != nil {
				actedOn[metaStr(cu, "uid")] = true
			}
			if !actedOn[ControllerOf(r.Pre)] || AnnotationsOf(r.Pre)["metacontroller.k8s.io/decorator-controller"] != scn.Cfg.Name {
				return withTrace(vs.Violf("C16/foreign-attachment-written", "%s wrote an object that is not this decorator's attachment (controller %q, marker %q)", r.String(), ControllerOf(r.Pre), AnnotationsOf(r.Pre)["metacontroller.k8s.io/decorator-controller"]), t)
			}
		}
	}
	if v := env.SharedStateViolation(); v != nil {
		return v
	}
	return nil
}

// judgeTargetWrites: every accepted write to the target changes nothing but label and
// annotation keys the hook named, the status, and the decorator's own finalizer -
// judged on the live object right before and right after each write.
func judgeTargetWrites(e *Env, t *SyncTrace, fin string) error {
	named := map[string]map[string]bool{"labels": {}, "annotations": {}}
	for _, h := range t.Hooks {
		if h.URL == CustomizeURL || h.Response.Code != 200 {
			continue
		}
		resp, err := vs.DecodeJSON(h.Response.Body)
		if err != nil {
			continue
		}
		for f := range named {
			m, _ := resp[f].(map[string]any)
			for k := range m {
				named[f][k] = true
			}
		}
	}
	for _, r := range t.Reqs {
		if !r.Mutating() || !r.Accepted() || r.Def.Resource != e.Scn.Cfg.ParentResource || r.Pre == nil || r.Post == nil {
			continue
		}
		if cu := FindIn(t.PreCache[e.Scn.Cfg.ParentResource], r.Pre); cu != nil && metaStr(cu, "uid") != metaStr(r.Pre, "uid") {
			return vs.Violf("C16/wrote-replaced-target", "%s wrote an object with UID %s; the sync had observed a target of that name with UID %s", r.String(), metaStr(r.Pre, "uid"), metaStr(cu, "uid"))
		}
		if !vs.JSONEqual(r.Pre["spec"], r.Post["spec"]) {
			return vs.Violf("C16/spec-modified", "%s changed the target's spec from %v to %v", r.String(), r.Pre["spec"], r.Post["spec"])
		}
		pm, qm := metaOfMap(vs.CopyMap(r.Pre)), metaOfMap(vs.CopyMap(r.Post))
		if !vs.JSONEqual(pm["ownerReferences"], qm["ownerReferences"]) {
			return vs.Violf("C16/foreign-metadata-modified", "%s changed the target's ownerReferences from %v to %v", r.String(), pm["ownerReferences"], qm["ownerReferences"])
		}
		for f, keys := range named {
			a, _ := pm[f].(map[string]any)
			b, _ := qm[f].(map[string]any)
			for k := range a {
				if !keys[k] && !vs.JSONEqual(a[k], b[k]) {
					return vs.Violf("C16/foreign-metadata-modified", "%s changed %s[%q] from %v to %v, a key the hook did not name", r.String(), f, k, a[k], b[k])
				}
			}
			for k := range b {
				if _, had := a[k]; !had && !keys[k] {
					return vs.Violf("C16/foreign-metadata-modified", "%s added %s[%q]=%v, a key the hook did not name", r.String(), f, k, b[k])
				}
			}
		}
		strip := func(m map[string]any) []any {
			var out []any
			fs, _ := m["finalizers"].([]any)
			for _, x := range fs {
				if x != fin {
					out = append(out, x)
				}
			}
			return out
		}
		if !vs.JSONEqual(strip(pm), strip(qm)) {
			return vs.Violf("C16/foreign-metadata-modified", "%s changed finalizers other than %s: %v -> %v", r.String(), fin, pm["finalizers"], qm["finalizers"])
		}
	}
	return nil
}
