package verifworld

import (
	"encoding/json"
	"fmt"
	"net/http"
	"sort"
	"strings"
	"sync"
	"sync/atomic"

	vs "metacontroller/pkg/internal/verifsim"
)

// OnlyC17 turns any sync-level property into a carrier for the cache
// fingerprint oracle: only cache-mutation findings count.
func OnlyC17(err error) error {
	if v, ok := err.(*vs.Violation); ok {
		if strings.HasPrefix(v.Sig, "C17/") {
			return v
		}
		return nil
	}
	return err
}

// storeDigest is a canonical rendering of the whole store (uids, resourceVersions,
// timestamps and managed fields removed; owner references by name).
func storeDigest(sim *vs.Server) string {
	var objs []string
	for _, d := range sim.Defs() {
		for _, o := range sim.ListAll(d.Resource) {
			c := vs.CopyMap(o)
			m := c["metadata"].(map[string]any)
			for _, k := range []string{"uid", "resourceVersion", "creationTimestamp", "managedFields", "generation"} {
				delete(m, k)
			}
			if l, ok := m["labels"].(map[string]any); ok {
				delete(l, "controller-uid")
			}
			refs, _ := m["ownerReferences"].([]any)
			for _, rf := range refs {
				if rm, ok := rf.(map[string]any); ok {
					delete(rm, "uid")
				}
			}
			if a, ok := m["annotations"].(map[string]any); ok {
				delete(a, vs.LastAppliedAnnotation)
			}
			if st, ok := c["status"].(map[string]any); ok {
				delete(st, "observedGeneration")
				if conds, ok := st["conditions"].([]any); ok {
					for _, cd := range conds {
						if cm, ok := cd.(map[string]any); ok {
							delete(cm, "message")
						}
					}
				}
			}
			if d.Resource == "controllerrevisions" {
				kids, _ := c["children"].([]any)
				for _, k := range kids {
					if km, ok := k.(map[string]any); ok {
						if ns, ok := km["names"].([]any); ok {
							sort.Slice(ns, func(i, j int) bool { return fmt.Sprint(ns[i]) < fmt.Sprint(ns[j]) })
						}
					}
				}
				c = map[string]any{"kind": "ControllerRevision", "owner": refs, "parentPatch": c["parentPatch"], "children": kids}
			}
			b, _ := json.Marshal(c)
			objs = append(objs, string(b))
		}
	}
	sort.Strings(objs)
	return strings.Join(objs, "\n")
}

// PropC17Race: concurrent syncs of distinct parents that share child, related and
// revision informers. Run in a -race build; the oracle inside the case is "no
// panic" and "same final store as the sequential run" - the race detector judges
// the rest (the driver turns its report into a violation).
func PropC17Race(c *vs.Case, f Factory, kind string) error {
	rolling := kind == "composite" && c.Bool()
	method := c.PickStr("InPlace", "Recreate")
	if rolling {
		method = c.PickStr("RollingInPlace", "RollingRecreate")
	}
	nParents := 2 + c.Int(5)
	workers := 2 + c.Int(7)
	rounds := 3 + c.Int(3)
	customize := c.Prob(2, 3)
	ssa := kind == "composite" && !rolling && c.Prob(1, 4)
	build := func() (*Env, []map[string]any, error) {
		scn := FixedScn("widgets", method, nil, 2)
		scn.Cfg.Kind = kind
		scn.Cfg.SSA = ssa
		scn.Cfg.GenerateSelector = false
		scn.Prog.Children[0].Replicated = true
		scn.Prog.Children[0].Labels = nil
		if kind == "decorator" {
			scn.Prog.StatusMode = 0
			scn.Prog.DecStatus = 1
		}
		scn.Cfg.Children = append(scn.Cfg.Children, ChildCfg{Resource: "configmaps", Method: "InPlace"})
		scn.Prog.Children = append(scn.Prog.Children, ChildTpl{Resource: "configmaps", Replicated: true,
			Fields: map[string]any{"data": map[string]any{"v": "$p:spec.template.v", "mode": "$p:spec.other"}}})
		if customize {
			scn.Cfg.CustomizeHook = true
			scn.Cfg.RealRelatedInformers = true
			scn.Prog.Related = []map[string]any{
				{"apiVersion": "other.io/v1beta1", "resource": "gadgets", "labelSelector": map[string]any{"matchLabels": map[string]any{"rel": "yes"}}},
				{"apiVersion": "ex.io/v1", "resource": "cwidgets", "names": []any{"cw-a"}},
			}
		}
		scn.Parent["spec"].(map[string]any)["replicas"] = int64(2)
		env, err := NewEnv(scn, f)
		if err != nil {
			return nil, nil, err
		}
		env.W.Sim.ExtCreate("gadgets", map[string]any{"metadata": map[string]any{"name": "rel-a", "namespace": "ns1", "labels": map[string]any{"rel": "yes"}}})
		env.W.Sim.ExtCreate("cwidgets", map[string]any{"metadata": map[string]any{"name": "cw-a"}})
		env.W.Sim.Purge("things", "ns1", "p1")
		var parents []map[string]any
		for i := 1; i <= nParents; i++ {
			p := vs.CopyMap(scn.Parent)
			name := fmt.Sprintf("q%d", i)
			p["metadata"].(map[string]any)["name"] = name
			if i%2 == 0 {
				// parents in two namespaces: whatever a controller shares between its workers must not
				// carry the namespace of the parent another worker is busy with
				p["metadata"].(map[string]any)["namespace"] = "ns2"
			}
			spec := p["spec"].(map[string]any)
			spec["selector"] = map[string]any{"matchLabels": map[string]any{"app": name}}
			spec["template"].(map[string]any)["metadata"] = map[string]any{"labels": map[string]any{"app": name}}
			created, err := env.W.Sim.ExtCreate("things", p)
			if err != nil {
				return nil, nil, err
			}
			parents = append(parents, created)
		}
		return env, parents, nil
	}
	c.Describe(func() any {
		return map[string]any{"kind": kind, "method": method, "parents": nParents, "workers": workers, "rounds": rounds, "customize": customize, "ssa": ssa}
	})
	run := func(concurrent bool) (string, int64, error) {
		env, parents, err := build()
		if err != nil {
			return "", 0, fmt.Errorf("harness: %v", err)
		}
		// per-parent child labels: install a hook that labels children with app=<parent name>
		installPerParentLabels(env)
		var overlap, inflight, maxInflight int64
		var panicMsg atomic.Value
		for r := 0; r < rounds; r++ {
			env.MakeHealthyAll()
			env.W.SyncAll()
			if r == 1 {
				for _, p := range parents {
					env.W.Sim.ExtUpdate("things", metaStr(p, "namespace"), metaStr(p, "name"), func(o map[string]any) {
						o["spec"].(map[string]any)["template"].(map[string]any)["v"] = "v2"
					})
				}
				env.W.SyncAll()
			}
			if r == 2 {
				// scale every parent down: concurrent deletes of children that are no longer desired
				for _, p := range parents {
					env.W.Sim.ExtUpdate("things", metaStr(p, "namespace"), metaStr(p, "name"), func(o map[string]any) {
						o["spec"].(map[string]any)["replicas"] = int64(1)
					})
				}
				env.W.SyncAll()
			}
			jobs := make(chan map[string]any, len(parents)*2)
			for rep := 0; rep < 2; rep++ {
				for _, p := range parents {
					jobs <- p
				}
			}
			close(jobs)
			w := 1
			if concurrent {
				w = workers
			}
			var wg sync.WaitGroup
			for i := 0; i < w; i++ {
				wg.Add(1)
				go func() {
					defer wg.Done()
					for p := range jobs {
						func() {
							defer func() {
								if pv := recover(); pv != nil {
									panicMsg.Store(fmt.Sprintf("%v\n%s", pv, trimStack(stackNow())))
								}
							}()
							n := atomic.AddInt64(&inflight, 1)
							if n > 1 {
								atomic.AddInt64(&overlap, 1)
							}
							for {
								m := atomic.LoadInt64(&maxInflight)
								if n <= m || atomic.CompareAndSwapInt64(&maxInflight, m, n) {
									break
								}
							}
							_ = env.Ctl.Sync(env.Ctl.KeyFor(p))
							atomic.AddInt64(&inflight, -1)
						}()
					}
				}()
			}
			wg.Wait()
			if m := panicMsg.Load(); m != nil {
				return "", 0, vs.Violf("C17/panic-under-concurrency", "a sync panicked while %d workers ran: %v", w, m)
			}
			if customize {
				// the related objects never change in this scenario: every sync hook call is shown both of them,
				// however many workers asked for the related informers at the same time
				for _, h := range env.W.Hooks.Take() {
					if h.URL == CustomizeURL || h.Response.Code != 200 || h.Request == nil {
						continue
					}
					rel, _ := h.Request["related"].(map[string]any)
					n := 0
					for _, g := range rel {
						gm, _ := g.(map[string]any)
						n += len(gm)
					}
					reqParent, _ := h.Request["parent"].(map[string]any)
					if reqParent == nil {
						reqParent, _ = h.Request["object"].(map[string]any)
					}
					want := 0
					for _, o := range append(env.W.Sim.ListAll("gadgets"), env.W.Sim.ListAll("cwidgets")...) {
						if reqParent != nil && relatedSelected(env, reqParent, env.Scn.Prog.Related, o) {
							want++
						}
					}
					if n != want {
						return "", 0, vs.Violf("C17/related-incomplete-under-concurrency", "with %d workers a hook call was shown %d related object(s) instead of the %d its rules select: %v", w, n, want, rel)
					}
				}
			}
		}
		// settle sequentially so that both runs end at their fixpoint
		for i := 0; i < 6; i++ {
			env.MakeHealthyAll()
			env.W.SyncAll()
			for _, p := range parents {
				_ = env.Ctl.Sync(env.Ctl.KeyFor(p))
			}
		}
		digest := storeDigest(env.W.Sim)
		if env.W.RelatedRefs != nil {
			// what the controller subscribed to on behalf of its customize rules is part of the result
			refs := env.W.RelatedRefs()
			var ks []string
			for k, n := range refs {
				ks = append(ks, fmt.Sprintf("%s=%d", k, n))
			}
			sort.Strings(ks)
			digest += "\nrelated informer subscriptions: " + strings.Join(ks, " ")
		}
		return digest, overlap, nil
	}
	seq, _, err := run(false)
	if err != nil {
		return err
	}
	con, overlap, err := run(true)
	if err != nil {
		return err
	}
	c.Class("overlapping-syncs>0=%v", overlap > 0)
	if overlap > 0 {
		c.NonTrivial()
	}
	if seq != con {
		return vs.Violf("C17/concurrent-differs-from-sequential", "running the same syncs from %d workers ended in a different cluster state than running them one after another\n%s", workers, diffWindow(seq, con))
	}
	return nil
}

// installPerParentLabels wraps the hook so that desired children carry app=<parent name>.
func installPerParentLabels(e *Env) {
	base := e.Scn.Prog
	kind := e.Scn.Cfg.Kind
	wrap := func(eval func(req map[string]any) map[string]any, key string) HookHandler {
		return func(_ *http.Request, body []byte) HookResponse {
			req, _ := vs.DecodeJSON(body)
			resp := eval(req)
			pk := "parent"
			if kind == "decorator" {
				pk = "object"
			}
			parent, _ := req[pk].(map[string]any)
			kids, _ := resp[key].([]any)
			for _, k := range kids {
				km := k.(map[string]any)
				m := km["metadata"].(map[string]any)
				m["labels"] = map[string]any{"app": metaStr(parent, "name")}
			}
			b, _ := json.Marshal(resp)
			return HookResponse{Code: 200, Body: b}
		}
	}
	if kind == "decorator" {
		h := wrap(func(req map[string]any) map[string]any { return base.EvalDecorator(e.W.Sim, req) }, "attachments")
		e.W.Hooks.Handle(SyncURL, h)
		e.W.Hooks.Handle(FinalizeURL, h)
	} else {
		h := wrap(func(req map[string]any) map[string]any { return base.EvalComposite(e.W.Sim, req) }, "children")
		e.W.Hooks.Handle(SyncURL, h)
		e.W.Hooks.Handle(FinalizeURL, h)
	}
}

// MakeHealthyAll marks every widget Ready (all parents).
func (e *Env) MakeHealthyAll() {
	for _, o := range e.W.Sim.ListAll("widgets") {
		gen := o["metadata"].(map[string]any)["generation"]
		want := map[string]any{"observedGeneration": gen, "conditions": []any{map[string]any{"type": "Ready", "status": "True", "reason": "Fine"}}}
		if vs.JSONEqual(o["status"], want) {
			continue
		}
		e.W.Sim.ExtUpdate("widgets", metaStr(o, "namespace"), metaStr(o, "name"), func(obj map[string]any) { obj["status"] = want })
	}
}
