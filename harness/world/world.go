// Package verifworld wires the simulator (verifsim.Server) to metacontroller's
// real clients, harness-owned caches, a recording work queue and an in-memory
// webhook endpoint. Overlay-only; never written into the repository.
package verifworld

import (
	"bytes"
	"crypto/sha1"
	"encoding/hex"
	"encoding/json"
	"fmt"
	"io"
	"net/http"
	"sort"
	"sync"
	"time"

	"metacontroller/pkg/apis/metacontroller/v1alpha1"
	mcclientset "metacontroller/pkg/client/generated/clientset/internalclientset"
	mclisters "metacontroller/pkg/client/generated/lister/metacontroller/v1alpha1"
	dynamicclientset "metacontroller/pkg/dynamic/clientset"
	dynamicdiscovery "metacontroller/pkg/dynamic/discovery"
	dynamicinformer "metacontroller/pkg/dynamic/informer"
	vs "metacontroller/pkg/internal/verifsim"

	"k8s.io/apimachinery/pkg/apis/meta/v1/unstructured"
	"k8s.io/apimachinery/pkg/runtime"
	"k8s.io/apimachinery/pkg/runtime/schema"
	"k8s.io/client-go/discovery"
	"k8s.io/client-go/rest"
	"k8s.io/client-go/tools/cache"
	"k8s.io/client-go/tools/record"
)

// Universe is the fixed set of resources every world serves.
func Universe() []*vs.ResourceDef {
	return []*vs.ResourceDef{
		{Group: "ex.io", Version: "v1", Resource: "things", Kind: "Thing", Namespaced: true, HasStatus: true},
		{Group: "ex.io", Version: "v1", Resource: "cthings", Kind: "CThing", Namespaced: false, HasStatus: true},
		{Group: "ex.io", Version: "v1", Resource: "plains", Kind: "Plain", Namespaced: true, HasStatus: false},
		{Group: "", Version: "v1", Resource: "configmaps", Kind: "ConfigMap", Namespaced: true, AllowUnconditionalUpdate: true, NoGeneration: true},
		{Group: "ex.io", Version: "v1", Resource: "widgets", Kind: "Widget", Namespaced: true, HasStatus: true},
		{Group: "other.io", Version: "v1beta1", Resource: "gadgets", Kind: "Gadget", Namespaced: true},
		{Group: "ex.io", Version: "v1", Resource: "cwidgets", Kind: "CWidget", Namespaced: false},
		// the same Kind as gadgets, in another API group (core Service next to a CRD called Service, say)
		{Group: "ex.io", Version: "v1", Resource: "xgadgets", Kind: "Gadget", Namespaced: true},
		{Group: "metacontroller.k8s.io", Version: "v1alpha1", Resource: "controllerrevisions", Kind: "ControllerRevision", Namespaced: true},
		{Group: "", Version: "v1", Resource: "namespaces", Kind: "Namespace", Namespaced: false, AllowUnconditionalUpdate: true, NoGeneration: true},
	}
}

// World is one simulated cluster plus everything a controller needs.
type World struct {
	Sim       *vs.Server
	Config    *rest.Config
	Resources *dynamicdiscovery.ResourceMap
	DynClient *dynamicclientset.Clientset
	McClient  *mcclientset.Clientset

	Indexers  map[string]cache.Indexer
	Informers map[string]*dynamicinformer.ResourceInformer
	Closed    map[string]*int

	RevIndexer cache.Indexer
	RevLister  mclisters.ControllerRevisionLister

	Queue *RecQueue
	Hooks *HookClient

	// RelatedRefs (set by the adapters when the customize manager gets a real informer
	// factory): open subscriptions per "resource.apiVersion" of that factory.
	RelatedRefs func() map[string]int
}

// NewWorld builds a world with empty store and empty caches.
func NewWorld() *World {
	sim := vs.NewServer(Universe())
	return NewWorldOn(sim)
}

// NewWorldOn builds clients and caches on top of an existing store (used to
// model a process restart: same cluster, fresh process state).
// NewWorldDiscovery is NewWorld with the order of the discovery document chosen.
func NewWorldDiscovery(subresourcesFirst bool, extra ...*vs.ResourceDef) *World {
	sim := vs.NewServer(append(Universe(), extra...))
	sim.SubresourcesFirst = subresourcesFirst
	return NewWorldOn(sim)
}

func NewWorldOn(sim *vs.Server) *World {
	w := &World{Sim: sim, Indexers: map[string]cache.Indexer{}, Informers: map[string]*dynamicinformer.ResourceInformer{}, Closed: map[string]*int{}}
	w.Config = &rest.Config{Host: "http://sim.invalid", Transport: sim, QPS: -1}
	dc, err := discovery.NewDiscoveryClientForConfig(w.Config)
	if err != nil {
		panic(err)
	}
	w.Resources = dynamicdiscovery.NewResourceMap(dc)
	w.Resources.VerifRefresh()
	if !w.Resources.HasSynced() {
		panic("verifworld: discovery did not sync")
	}
	w.DynClient, err = dynamicclientset.New(w.Config, w.Resources)
	if err != nil {
		panic(err)
	}
	w.McClient, err = mcclientset.NewForConfig(w.Config)
	if err != nil {
		panic(err)
	}
	for _, d := range sim.Defs() {
		if d.Resource == "controllerrevisions" {
			continue
		}
		ix := cache.NewIndexer(cache.DeletionHandlingMetaNamespaceKeyFunc, cache.Indexers{cache.NamespaceIndex: cache.MetaNamespaceIndexFunc})
		w.Indexers[d.Name()] = ix
		n := new(int)
		w.Closed[d.Name()] = n
		w.Informers[d.Name()] = dynamicinformer.NewVerifResourceInformer(ix, d.GVR(), n)
	}
	w.RevIndexer = cache.NewIndexer(cache.MetaNamespaceKeyFunc, cache.Indexers{cache.NamespaceIndex: cache.MetaNamespaceIndexFunc})
	w.RevLister = mclisters.NewControllerRevisionLister(w.RevIndexer)
	w.Queue = &RecQueue{}
	w.Hooks = &HookClient{routes: map[string]HookHandler{}}
	return w
}

// InformerFor returns the harness-owned informer of the resource a rule names (apiVersion + plural): two
// definitions may share a plural across API groups, so the plural alone does not identify it.
func (w *World) InformerFor(apiVersion, resource string) *dynamicinformer.ResourceInformer {
	for _, d := range w.Sim.Defs() {
		if d.Resource == resource && d.APIVersion() == apiVersion {
			return w.Informers[d.Name()]
		}
	}
	return nil
}

// SyncCache makes the cache of one resource equal to the store (a reflector
// that has caught up).
func (w *World) SyncCache(resource string) {
	objs := w.Sim.ListAll(resource)
	if resource == "controllerrevisions" {
		items := make([]interface{}, 0, len(objs))
		for _, o := range objs {
			b, _ := json.Marshal(o)
			cr := &v1alpha1.ControllerRevision{}
			if err := json.Unmarshal(b, cr); err != nil {
				panic(err)
			}
			items = append(items, cr)
		}
		if err := w.RevIndexer.Replace(items, ""); err != nil {
			panic(err)
		}
		return
	}
	ix := w.Indexers[resource]
	items := make([]interface{}, 0, len(objs))
	for _, o := range objs {
		items = append(items, &unstructured.Unstructured{Object: o})
	}
	if err := ix.Replace(items, ""); err != nil {
		panic(err)
	}
}

// SyncAll catches every cache up.
func (w *World) SyncAll() {
	for _, d := range w.Sim.Defs() {
		w.SyncCache(d.Name())
	}
}

// Resources served, in a fixed order.
func (w *World) ResourceNames() []string {
	var out []string
	for _, d := range w.Sim.Defs() {
		out = append(out, d.Name())
	}
	return out
}

// CacheFingerprint returns a hash per cached object (C17).
func (w *World) CacheFingerprint() map[string]string {
	out := map[string]string{}
	for res, ix := range w.Indexers {
		for _, it := range ix.List() {
			u := it.(*unstructured.Unstructured)
			out[res+"|"+u.GetNamespace()+"|"+u.GetName()] = hashJSON(u.Object)
		}
	}
	for _, it := range w.RevIndexer.List() {
		cr := it.(*v1alpha1.ControllerRevision)
		out["controllerrevisions|"+cr.Namespace+"|"+cr.Name] = hashJSON(cr)
	}
	return out
}

func hashJSON(v any) string {
	b, err := json.Marshal(v)
	if err != nil {
		return "ERR:" + err.Error()
	}
	h := sha1.Sum(b)
	return hex.EncodeToString(h[:8])
}

// DiffFingerprints lists keys whose fingerprint changed, appeared or vanished.
func DiffFingerprints(a, b map[string]string) []string {
	var out []string
	for k, v := range a {
		if bv, ok := b[k]; !ok {
			out = append(out, k+" (removed from cache)")
		} else if bv != v {
			out = append(out, k+" (content changed)")
		}
	}
	for k := range b {
		if _, ok := a[k]; !ok {
			out = append(out, k+" (added to cache)")
		}
	}
	sort.Strings(out)
	return out
}

// CachedObject returns the cached object (not a copy) or nil.
func (w *World) CachedObject(resource, ns, name string) *unstructured.Unstructured {
	key := name
	if ns != "" {
		key = ns + "/" + name
	}
	it, ok, _ := w.Indexers[resource].GetByKey(key)
	if !ok {
		return nil
	}
	return it.(*unstructured.Unstructured)
}

// CachedList returns deep copies of all cached objects of a resource, sorted.
func (w *World) CachedList(resource string) []map[string]any {
	var out []map[string]any
	if resource == "controllerrevisions" {
		for _, it := range w.RevIndexer.List() {
			b, _ := json.Marshal(it)
			m, _ := vs.DecodeJSON(b)
			out = append(out, m)
		}
	} else {
		for _, it := range w.Indexers[resource].List() {
			out = append(out, vs.CopyMap(it.(*unstructured.Unstructured).Object))
		}
	}
	sort.Slice(out, func(i, j int) bool {
		return objKey(out[i]) < objKey(out[j])
	})
	return out
}

func objKey(o map[string]any) string {
	m, _ := o["metadata"].(map[string]any)
	ns, _ := m["namespace"].(string)
	n, _ := m["name"].(string)
	return ns + "/" + n
}

// ---- recording work queue --------------------------------------------------------

// QueueCall is one call made on the controller's work queue.
type QueueCall struct {
	Op    string // Add AddAfter AddRateLimited Forget Done
	Key   string
	Delay time.Duration
}

// RecQueue records queue calls; it never blocks and never runs workers.
type RecQueue struct {
	mu      sync.Mutex
	Calls   []QueueCall
	pending []any
	// requeues counts AddRateLimited calls per key since the last Forget, like the real rate limiter
	requeues map[string]int
}

// Push makes key the next item Get returns.
func (q *RecQueue) Push(key string) {
	q.mu.Lock()
	q.pending = append(q.pending, key)
	q.mu.Unlock()
}

func (q *RecQueue) rec(op string, item any, d time.Duration) {
	q.mu.Lock()
	q.Calls = append(q.Calls, QueueCall{Op: op, Key: fmt.Sprint(item), Delay: d})
	q.mu.Unlock()
}
func (q *RecQueue) Add(item any) { q.rec("Add", item, 0) }
func (q *RecQueue) Len() int     { return 0 }
func (q *RecQueue) Get() (any, bool) {
	q.mu.Lock()
	defer q.mu.Unlock()
	if len(q.pending) == 0 {
		return nil, true
	}
	k := q.pending[0]
	q.pending = q.pending[1:]
	return k, false
}
func (q *RecQueue) Done(item any)                             { q.rec("Done", item, 0) }
func (q *RecQueue) ShutDown()                                 {}
func (q *RecQueue) ShutDownWithDrain()                        {}
func (q *RecQueue) ShuttingDown() bool                        { return false }
func (q *RecQueue) AddAfter(item any, duration time.Duration) { q.rec("AddAfter", item, duration) }
func (q *RecQueue) AddRateLimited(item any) {
	q.mu.Lock()
	if q.requeues == nil {
		q.requeues = map[string]int{}
	}
	q.requeues[fmt.Sprint(item)]++
	q.mu.Unlock()
	q.rec("AddRateLimited", item, 0)
}
func (q *RecQueue) Forget(item any) {
	q.mu.Lock()
	delete(q.requeues, fmt.Sprint(item))
	q.mu.Unlock()
	q.rec("Forget", item, 0)
}
func (q *RecQueue) NumRequeues(item any) int {
	q.mu.Lock()
	defer q.mu.Unlock()
	return q.requeues[fmt.Sprint(item)]
}

// Take returns and clears the recorded calls.
func (q *RecQueue) Take() []QueueCall {
	q.mu.Lock()
	defer q.mu.Unlock()
	c := q.Calls
	q.Calls = nil
	return c
}

// ---- in-memory webhook endpoint ---------------------------------------------------

// HookResponse is what a handler answers.
type HookResponse struct {
	Code   int
	Header http.Header
	Body   []byte
	Err    error // transport error
	// ContentLength, when non-zero, is what the response claims in its Content-Length header (http.Response.ContentLength)
	// instead of the true body length: the hook controls that header too.
	ContentLength int64
}

// HookHandler answers one hook call.
type HookHandler func(req *http.Request, body []byte) HookResponse

// HookExchange is one logged request/response pair.
type HookExchange struct {
	URL      string
	Request  map[string]any
	RawReq   []byte
	Response HookResponse
	Epoch    int
	DoneAt   time.Time // when the handler had answered
}

// HookClient implements hooks.HttpClientInterface in memory.
type HookClient struct {
	mu     sync.Mutex
	routes map[string]HookHandler
	Log    []*HookExchange
	Epoch  int
}

func (h *HookClient) Handle(url string, f HookHandler) {
	h.mu.Lock()
	h.routes[url] = f
	h.mu.Unlock()
}

func (h *HookClient) Do(req *http.Request) (*http.Response, error) {
	var body []byte
	if req.Body != nil {
		body, _ = io.ReadAll(req.Body)
		req.Body.Close()
	}
	h.mu.Lock()
	f := h.routes[req.URL.String()]
	epoch := h.Epoch
	h.mu.Unlock()
	if f == nil {
		return nil, fmt.Errorf("verifworld: no hook route for %s", req.URL.String())
	}
	resp := f(req, body)
	ex := &HookExchange{URL: req.URL.String(), RawReq: body, Response: resp, Epoch: epoch, DoneAt: time.Now()}
	if m, err := vs.DecodeJSON(body); err == nil {
		ex.Request = m
	}
	h.mu.Lock()
	h.Log = append(h.Log, ex)
	h.mu.Unlock()
	if resp.Err != nil {
		return nil, resp.Err
	}
	hdr := resp.Header
	if hdr == nil {
		hdr = http.Header{}
	}
	cl := int64(len(resp.Body))
	if resp.ContentLength != 0 {
		cl = resp.ContentLength
	}
	return &http.Response{StatusCode: resp.Code, Status: fmt.Sprintf("%d %s", resp.Code, http.StatusText(resp.Code)), Proto: "HTTP/1.1", ProtoMajor: 1, ProtoMinor: 1,
		Header: hdr, Body: io.NopCloser(bytes.NewReader(resp.Body)), ContentLength: cl, Request: req}, nil
}

// Take returns and clears the logged exchanges.
func (h *HookClient) Take() []*HookExchange {
	h.mu.Lock()
	defer h.mu.Unlock()
	l := h.Log
	h.Log = nil
	return l
}

// ---- event recorder -----------------------------------------------------------------

// NopRecorder discards events (client-go's FakeRecorder blocks when full).
type NopRecorder struct{}

func (NopRecorder) Event(object runtime.Object, eventtype, reason, message string) {}
func (NopRecorder) Eventf(object runtime.Object, eventtype, reason, messageFmt string, args ...interface{}) {
}
func (NopRecorder) AnnotatedEventf(object runtime.Object, annotations map[string]string, eventtype, reason, messageFmt string, args ...interface{}) {
}

var _ record.EventRecorder = NopRecorder{}

// GVR helper.
func GVR(d *vs.ResourceDef) schema.GroupVersionResource { return d.GVR() }
