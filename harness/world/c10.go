package verifworld

import (
	"fmt"

	vs "metacontroller/pkg/internal/verifsim"
)

func hasFinalizer(o map[string]any, name string) bool {
	m, _ := o["metadata"].(map[string]any)
	l, _ := m["finalizers"].([]any)
	for _, f := range l {
		if f == name {
			return true
		}
	}
	return false
}

func hasGCFinalizer(o map[string]any) bool {
	return hasFinalizer(o, "foregroundDeletion") || hasFinalizer(o, "orphan")
}

func (e *Env) controllerSelectorMatches(parent map[string]any) bool {
	lbl := LabelsOf(parent)
	for k, v := range e.Scn.Cfg.ParentSelector {
		if lbl[k] != v {
			return false
		}
	}
	if e.Scn.Cfg.Kind == "decorator" {
		ann := AnnotationsOf(parent)
		for k, v := range e.Scn.Cfg.ParentAnnSel {
			if ann[k] != v {
				return false
			}
		}
	}
	return true
}

// judgeFinalizer is the C10 monitor for one sync run with fresh caches.
func judgeFinalizer(c *vs.Case, e *Env, t *SyncTrace, pre map[string]any, faultFired, conflictFired bool) error {
	cfg := &e.Scn.Cfg
	fin := cfg.FinalizerName()
	if pre == nil {
		if len(t.Writes()) > 0 || len(t.Hooks) > 0 {
			return vs.Violf("C10/acted-on-missing-parent", "the parent does not exist but the sync issued %v", reqStrs(t.Writes()))
		}
		return nil
	}
	deleting := IsDeleting(pre)
	hasFin := hasFinalizer(pre, fin)
	matches := e.controllerSelectorMatches(pre)
	gc := hasGCFinalizer(pre)
	enabled := cfg.FinalizeHook
	c.Class("state: deleting=%v fin=%v matches=%v gc=%v hook=%v", deleting, hasFin, matches, gc, enabled)

	var childWrites, parentFinWrites []*vs.Request
	finAdded, finRemoved := false, false
	curFin := hasFin
	for _, r := range t.Reqs {
		if !r.Mutating() {
			continue
		}
		switch {
		case r.Def.Resource == cfg.ParentResource && r.Subresource == "":
			parentFinWrites = append(parentFinWrites, r)
			if r.Accepted() && r.Post != nil {
				now := hasFinalizer(r.Post, fin)
				if now && !curFin {
					finAdded = true
				}
				if !now && curFin {
					finRemoved = true
				}
				curFin = now
			} else if r.Accepted() && r.Post == nil && curFin {
				finRemoved = true
				curFin = false
			}
			// never try to add the finalizer to a parent observed as deleting
			if deleting && hasFinalizer(r.Body, fin) && !hasFin {
				return vs.Violf("C10/finalizer-added-to-deleting-parent", "%s tries to add the finalizer to a parent that is already being deleted", r.String())
			}
		case r.Def.Resource == cfg.ParentResource:
			// status writes: not our business here
		case r.Def.Resource == "controllerrevisions":
		default:
			childWrites = append(childWrites, r)
			if r.Verb == "create" && r.Accepted() && enabled && !curFin {
				return vs.Violf("C10/child-created-before-finalizer", "%s: a finalize hook is configured but the parent does not carry the finalizer at the moment the child is created", r.String())
			}
		}
	}
	var calls []*HookExchange
	for _, h := range t.Hooks {
		if h.URL != CustomizeURL {
			calls = append(calls, h)
		}
	}
	// A. not ours
	if !hasFin && !matches {
		if len(t.Writes()) > 0 || len(calls) > 0 {
			return vs.Violf("C10/acted-on-unselected-parent", "the parent neither matches the controller selector nor carries the finalizer, but the sync issued %v and %d hook calls", reqStrs(t.Writes()), len(calls))
		}
		return nil
	}
	// a finalizer write answered 404 ("the parent is gone") ends the sync quietly: nothing may follow it
	for i, r := range t.Reqs {
		if r.Mutating() && r.Def.Resource == cfg.ParentResource && r.Subresource == "" && r.Code == 404 {
			for _, later := range t.Reqs[i+1:] {
				if later.Mutating() && later.Def.Resource != cfg.ParentResource {
					return vs.Violf("C10/acted-after-finalizer-failure", "%s was answered 404, yet the sync went on with %s", r.String(), later.String())
				}
			}
			return nil
		}
	}
	// B. finalizer bookkeeping happens first
	if conflictFired {
		faultFired = true // a lost optimistic-lock race excuses "not done yet" (retried on the next event)
	}
	if enabled && !hasFin && !deleting && !finAdded && !faultFired && t.Err == nil {
		return vs.Violf("C10/finalizer-not-added", "a finalize hook is configured and the live parent lacks the finalizer, but the sync did not add it")
	}
	if !enabled && hasFin && !finRemoved && !faultFired && t.Err == nil {
		return vs.Violf("C10/leftover-finalizer-kept", "no finalize hook is configured but the leftover finalizer was not removed (parent deleting=%v)", deleting)
	}
	if faultFired && !conflictFired && t.Err != nil && len(calls) == 0 {
		// finalizer write failed: nothing else may have happened
		if len(childWrites) > 0 {
			return vs.Violf("C10/acted-after-finalizer-failure", "the finalizer write failed, yet children were written: %v", reqStrs(childWrites))
		}
		return nil
	}
	afterFin := hasFin
	if enabled && finAdded {
		afterFin = true
	}
	if !enabled && finRemoved {
		afterFin = false
	}
	if !afterFin && !matches {
		// leftover finalizer removed from an unselected parent: done
		if len(calls) > 0 || len(childWrites) > 0 {
			return vs.Violf("C10/acted-after-leftover-removal", "after removing the leftover finalizer from an unselected parent the sync went on: %d hook calls, %v", len(calls), reqStrs(childWrites))
		}
		return nil
	}
	// C. hook selection
	wantFinalize := enabled && (deleting || !matches)
	for _, h := range calls {
		fz, _ := h.Request["finalizing"].(bool)
		if wantFinalize && (h.URL != FinalizeURL || !fz) {
			return vs.Violf("C10/wrong-hook", "parent deleting=%v matches=%v with a finalize hook: want the finalize hook with finalizing:true, got %s finalizing=%v", deleting, matches, h.URL, fz)
		}
		if !wantFinalize && (h.URL != SyncURL || fz) {
			return vs.Violf("C10/wrong-hook", "parent deleting=%v matches=%v finalizeHook=%v: want the sync hook with finalizing:false, got %s finalizing=%v", deleting, matches, enabled, h.URL, fz)
		}
	}
	if wantFinalize {
		c.NonTrivial()
	}
	// a fault-free finalizing sync reaches its finalize hook: nothing in the cluster (orphans that look like
	// children, say) may keep a dying parent from being finalized
	if wantFinalize && hasFin && !gc && !faultFired && !conflictFired && len(calls) == 0 {
		return vs.Violf("C10/finalize-hook-not-called", "parent deleting=%v matches=%v carries the finalizer and a finalize hook is configured, but the fault-free sync never called it (sync error: %v)", deleting, matches, t.Err)
	}
	// D. children of a dying parent
	manage := !deleting || (!gc && afterFin && enabled)
	if !manage && len(childWrites) > 0 {
		return vs.Violf("C10/children-touched-for-dying-parent", "parent pending deletion (finalize hook=%v, finalizer present=%v, GC finalizer=%v) but children were written: %v", enabled, afterFin, gc, reqStrs(childWrites))
	}
	// E. removal only after finalized:true from every revision consulted
	// (answers of revisions that no longer exist after this sync - pruned because no
	// child is assigned to them any more - do not count)
	allFinalized := len(calls) > 0
	liveRevs := e.W.Sim.ListAll("controllerrevisions")
	for _, h := range calls {
		resp, _ := vs.DecodeJSON(h.Response.Body)
		if f, _ := resp["finalized"].(bool); !f {
			if len(calls) > 1 && !callBelongsToLiveRevision(e, h, liveRevs) {
				continue
			}
			allFinalized = false
		}
	}
	if enabled && finRemoved && !allFinalized {
		return vs.Violf("C10/finalizer-removed-without-finalized", "the finalizer was removed although not every hook answer of this sync said finalized:true (%d calls)", len(calls))
	}
	if wantFinalize && allFinalized && hasFin && !finRemoved && !faultFired && t.Err == nil {
		return vs.Violf("C10/finalizer-kept-after-finalized", "every finalize answer said finalized:true but the finalizer is still there")
	}
	// children are still reconciled to the finalize answer (single-revision case)
	// (a deleting parent whose finalizer was removed in this sync is no longer managed; an alive,
	// merely unselected one still is)
	if wantFinalize && manage && len(calls) == 1 && t.Err == nil && (!finRemoved || !deleting) && !conflictFired {
		resp, _ := vs.DecodeJSON(calls[0].Response.Body)
		key := "children"
		if cfg.Kind == "decorator" {
			key = "attachments"
		}
		want := map[string]bool{}
		kids, _ := resp[key].([]any)
		for _, k := range kids {
			want[ObjID(e.NormalizeDesired(k.(map[string]any)))] = true
		}
		obs, _ := calls[0].Request[key].(map[string]any)
		// ... children the answer asks for and that do not exist (someone deleted them) are created again
		for _, k := range kids {
			km := e.NormalizeDesired(k.(map[string]any))
			d := e.W.Sim.DefByKind(km["apiVersion"].(string), km["kind"].(string))
			if d == nil {
				continue
			}
			seen := false
			for _, g := range obs {
				for _, o := range g.(map[string]any) {
					if ObjID(o.(map[string]any)) == ObjID(km) {
						seen = true
					}
				}
			}
			if seen || FindIn(t.PreCache[d.Resource], km) != nil {
				continue
			}
			ws := t.WritesOn(d.Resource, metaStr(km, "namespace"), metaStr(km, "name"))
			if len(ws) == 0 {
				return vs.Violf("C10/finalize-answer-not-applied", "the finalize hook asks for %s, which does not exist, but the sync did not create it", ObjID(km))
			}
			c.Class("finalize-answer-creates-child")
		}
		for _, g := range obs {
			for _, o := range g.(map[string]any) {
				om := o.(map[string]any)
				if want[ObjID(om)] || IsDeleting(om) {
					continue
				}
				d := e.W.Sim.DefByKind(om["apiVersion"].(string), om["kind"].(string))
				var ws []*vs.Request
				for _, wr := range t.WritesOn(d.Resource, metaStr(om, "namespace"), metaStr(om, "name")) {
					if !isOwnershipEdit(wr) { // an orphan is adopted first, then dropped like the others
						ws = append(ws, wr)
					}
				}
				if len(ws) != 1 || ws[0].Verb != "delete" {
					return vs.Violf("C10/finalize-answer-not-applied", "the finalize hook dropped %s but the sync issued %v for it", ObjID(om), reqStrs(ws))
				}
				c.Class("finalize-answer-deletes-child")
			}
		}
	}
	return nil
}

// PropC10: finalizer added first, honoured on deletion, removed only when finalized.
func PropC10(c *vs.Case, f Factory, kind string) error {
	scn := GenScn(c, GenOpts{Kind: kind, AllowRolling: kind == "composite", AllowFinalize: true, ClusterParent: 1})
	scn.Cfg.SSA = false
	scn.Cfg.GenerateSelector = false
	if scn.Cfg.Kind == "composite" {
		scn.SelLabels = map[string]string{"app": "p1"}
		scn.Parent["spec"].(map[string]any)["selector"] = map[string]any{"matchLabels": map[string]any{"app": "p1"}}
		scn.Parent["spec"].(map[string]any)["template"].(map[string]any)["metadata"] = map[string]any{"labels": map[string]any{"app": "p1"}}
		for i := range scn.Prog.Children {
			if scn.Prog.Children[i].Labels == nil {
				scn.Prog.Children[i].Labels = map[string]string{}
			}
			scn.Prog.Children[i].Labels["app"] = "p1"
		}
	}
	scn.Cfg.FinalizeHook = c.Prob(2, 3)
	scn.Prog.Ordered = false
	scn.Prog.FinalizedMode = c.Weighted(3, 1, 1, 2)
	if kind != "composite" && scn.Prog.FinalizedMode == 3 {
		scn.Prog.FinalizedMode = 0 // revision-dependent answers only make sense with revisions
	}
	useSelector := c.Prob(1, 2)
	if scn.Prog.FinalizedMode == 3 {
		// revision-dependent answers keep their children while claiming to be finalized; that is
		// only meaningful for a parent that is really being deleted (no child is ever created then)
		useSelector = false
		scn.Prog.FinalizeMode = 1
	}
	if useSelector {
		scn.Cfg.ParentSelector = map[string]string{"enabled": "yes"}
		scn.Cfg.SelAsExpressions = c.Bool()
		metaOfMap(scn.Parent)["labels"] = map[string]any{"enabled": "yes"}
	}
	if c.Prob(1, 3) {
		// someone else's finalizer keeps a deleted parent around after ours is gone
		m := metaOfMap(scn.Parent)
		fs, _ := m["finalizers"].([]any)
		m["finalizers"] = append(fs, "example.com/hold")
		c.Class("parent-with-foreign-finalizer")
	}
	// directed arm: a rollout in progress when the parent gets deleted, with finalize answers
	// that differ per revision ("several live revisions with differing finalized")
	var script []int
	if kind == "composite" && c.Prob(1, 5) {
		scn.Cfg.FinalizeHook = true
		scn.Prog.FinalizedMode = 3
		scn.Prog.FinalizeMode = 1
		useSelector = false
		scn.Cfg.ParentSelector = nil
		delete(metaOfMap(scn.Parent), "labels")
		method := c.PickStr("RollingInPlace", "RollingRecreate")
		scn.Cfg.Children = []ChildCfg{{Resource: "widgets", Method: method}}
		scn.Prog.Children = []ChildTpl{{Resource: "widgets", Names: []string{"w0", "w1", "w2"}, Labels: map[string]string{"app": "p1"},
			Fields: map[string]any{"spec": map[string]any{"v": "$p:spec.template.v"}}}}
		scn.Parent["spec"].(map[string]any)["template"].(map[string]any)["v"] = "v1"
		script = []int{0, 0, 4, 0}
		for i := c.Int(3); i > 0; i-- {
			script = append(script, 0)
		}
		script = append(script, 2, 0, 0)
		c.Class("directed:rollout-then-delete")
	}
	env, err := NewEnv(scn, f)
	if err != nil {
		return fmt.Errorf("harness: %v", err)
	}
	var seeds any
	if c.Prob(1, 3) {
		// look-alikes around the children: matching orphans, foreign-owned and non-matching objects
		seeds = SeedStore(c, env, SeedOpts{Max: 4})
		c.Class("seeded-look-alikes")
	}
	var log []string
	c.Describe(func() any { return map[string]any{"scenario": scn, "seeds": seeds, "steps": log} })
	steps := 3 + c.Int(7)
	if script != nil {
		steps = len(script) + c.Int(3)
	}
	for s := 0; s < steps; s++ {
		op := c.Weighted(8, 2, 2, 1, 1, 1, 1, 1)
		if s < len(script) {
			op = script[s]
			if op == 0 {
				env.MakeHealthy()
			}
		}
		switch op {
		case 0: // sync, optionally with a fault on the finalizer write
			env.W.SyncAll()
			pre := env.Parent()
			// 1: 500 on the finalizer write, 2: one lost optimistic-lock race, 3: the race is lost on every
			// retry, 4: the write is answered 404
			faultKind := c.Weighted(6, 1, 1, 1, 1)
			fired := false
			if faultKind > 0 {
				env.W.Sim.Before = func(r *vs.Request) *vs.Fault {
					if (!fired || faultKind == 3) && r.Def.Resource == scn.Cfg.ParentResource && r.Verb == "update" && r.Subresource == "" {
						fired = true
						if faultKind == 1 {
							return &vs.Fault{Code: 500, Reason: "InternalError", Message: "injected"}
						}
						if faultKind == 4 {
							return &vs.Fault{Code: 404, Reason: "NotFound", Message: "injected"}
						}
						// a real conflict: someone touches the parent right before the write
						env.W.Sim.ExtUpdate(scn.Cfg.ParentResource, scn.ParentNS(), scn.ParentName(), func(o map[string]any) {
							metaOfMap(o)["labels"].(map[string]any)["touched"] = fmt.Sprint(r.Seq)
						})
					}
					return nil
				}
			}
			t := env.Sync()
			env.W.Sim.Before = nil
			log = append(log, fmt.Sprintf("sync: %d requests, %d hook calls, err=%v fault=%d fired=%v", len(t.Reqs), len(t.Hooks), t.Err, faultKind, fired))
			if t.Panic != "" {
				return vs.Violf("C10/panic", "panic: %s", t.Panic)
			}
			if fired {
				c.Class("finalizer-write-fault-%d", faultKind)
			}
			if err := judgeFinalizer(c, env, t, pre, fired && (faultKind == 1 || faultKind == 4), fired && (faultKind == 2 || faultKind == 3)); err != nil {
				return withTrace(err, t)
			}
		case 1: // relabel: match / unmatch the controller selector
			if useSelector {
				env.W.Sim.ExtUpdate(scn.Cfg.ParentResource, scn.ParentNS(), scn.ParentName(), func(o map[string]any) {
					l := metaOfMap(o)["labels"].(map[string]any)
					if l["enabled"] == "yes" {
						l["enabled"] = "no"
					} else {
						l["enabled"] = "yes"
					}
				})
				log = append(log, "toggle controller-selector label")
				c.Class("op:toggle-match")
			}
		case 2: // delete the parent
			pol := c.PickStr("", "Background", "Foreground", "Orphan")
			env.W.Sim.ExtDelete(scn.Cfg.ParentResource, scn.ParentNS(), scn.ParentName(), pol)
			log = append(log, "delete parent policy="+pol)
			c.Class("op:delete-%s", orStr(pol, "plain"))
		case 3: // the finalize hook is added to / removed from the controller
			scn.Cfg.FinalizeHook = !scn.Cfg.FinalizeHook
			if err := env.Restart(); err != nil {
				return fmt.Errorf("harness: %v", err)
			}
			log = append(log, fmt.Sprintf("controller rebuilt, finalize hook=%v", scn.Cfg.FinalizeHook))
			c.Class("op:toggle-finalize-hook")
		case 4: // a revisioned field changes (several live revisions for rolling configs)
			env.W.Sim.ExtUpdate(scn.Cfg.ParentResource, scn.ParentNS(), scn.ParentName(), func(o map[string]any) {
				tpl := o["spec"].(map[string]any)["template"].(map[string]any)
				if tpl["v"] == "v1" {
					tpl["v"] = "v2"
				} else {
					tpl["v"] = "v1"
				}
			})
			log = append(log, "template.v changed")
		case 7: // someone deletes one of the parent's children
			if owned := env.OwnedChildren(); len(owned) > 0 {
				o := owned[c.Int(len(owned))]
				d := env.W.Sim.DefByKind(o["apiVersion"].(string), o["kind"].(string))
				env.W.Sim.Purge(d.Resource, metaStr(o, "namespace"), metaStr(o, "name"))
				log = append(log, "child "+ObjID(o)+" deleted by someone")
				c.Class("child-deleted-externally")
			}
		case 6: // an object that looks like an orphaned child of this parent appears (also while the parent is dying)
			if scn.Cfg.Kind == "composite" && len(scn.Cfg.Children) > 0 {
				d := env.W.Sim.Def(scn.Cfg.Children[0].Resource)
				obj := map[string]any{"apiVersion": d.APIVersion(), "kind": d.Kind, "metadata": map[string]any{"name": fmt.Sprintf("stray%d", s), "labels": env.MatchLabels()}}
				if d.Namespaced {
					ns := scn.ParentNS()
					if ns == "" {
						ns = "ns1"
					}
					obj["metadata"].(map[string]any)["namespace"] = ns
				}
				if _, err := env.W.Sim.ExtCreate(d.Resource, obj); err == nil {
					log = append(log, "matching orphan "+ObjID(obj)+" appears")
					c.Class("matching-orphan-appears")
				}
			}
		case 5: // the garbage collector finishes its part
			env.W.Sim.ExtUpdate(scn.Cfg.ParentResource, scn.ParentNS(), scn.ParentName(), func(o map[string]any) {
				m := o["metadata"].(map[string]any)
				var keep []any
				fs, _ := m["finalizers"].([]any)
				for _, f := range fs {
					if f != "foregroundDeletion" && f != "orphan" {
						keep = append(keep, f)
					}
				}
				m["finalizers"] = keep
			})
			log = append(log, "GC finalizer removed")
		}
	}
	if v := env.SharedStateViolation(); v != nil {
		return v
	}
	return nil
}

// callBelongsToLiveRevision: the hook call was made for a parent revision that
// still exists (as the latest parent or as a stored ControllerRevision).
func callBelongsToLiveRevision(e *Env, h *HookExchange, revs []map[string]any) bool {
	reqParent, _ := h.Request["parent"].(map[string]any)
	if reqParent == nil {
		return true
	}
	paths := e.Scn.Cfg.FieldPaths
	if len(paths) == 0 {
		paths = []string{"spec"}
	}
	same := func(a, b map[string]any) bool {
		for _, p := range paths {
			av, aok := getPath(a, p)
			bv, bok := getPath(b, p)
			if aok != bok || (aok && !vs.JSONEqual(av, bv)) {
				return false
			}
		}
		return true
	}
	if live := e.Parent(); live != nil && same(reqParent, live) {
		return true
	}
	for _, r := range revs {
		patch, _ := r["parentPatch"].(map[string]any)
		if ControllerOf(r) == e.ParentUID && patch != nil && same(reqParent, patch) {
			return true
		}
	}
	return false
}
