package verifworld

import (
	"fmt"

	vs "metacontroller/pkg/internal/verifsim"
)

// Deterministic probes: one hand-written scenario per open known finding, so
// that the KNOWN-FINDING line is printed iff the finding still reproduces.

func probeEnv(f Factory, resource, method string, names []string, mut func(*Scn)) (*Env, error) {
	scn := FixedScn(resource, method, names, 1)
	if mut != nil {
		mut(scn)
	}
	return NewEnv(scn, f)
}

// ProbesC01 returns the probes for C01's open findings.
func ProbesC01(f Factory) map[string]func() error {
	return map[string]func() error{
		"known:ssa-drift-on-kind-without-generation": func() error {
			env, err := probeEnv(f, "configmaps", "InPlace", []string{"c0"}, func(s *Scn) { s.Cfg.SSA = true })
			if err != nil {
				return err
			}
			for i := 0; i < 3; i++ {
				env.SyncFresh()
			}
			env.W.Sim.ExtUpdate("configmaps", "ns1", "c0", func(o map[string]any) { o["data"].(map[string]any)["v"] = "drifted" })
			for i := 0; i < 6; i++ {
				env.SyncFresh()
			}
			if v := env.W.Sim.Get("configmaps", "ns1", "c0")["data"].(map[string]any)["v"]; v != "v1" {
				return vs.Violf("C01/ssa-drift-not-repaired-without-generation", "ConfigMap c0 under server-side apply: data.v was changed to %v by someone else and is still not repaired after 6 syncs", v)
			}
			return nil
		},
		"known:ssa-rolling-update-stalls": func() error {
			return probeRolloutCompletes(f, func(s *Scn) { s.Cfg.SSA = true }, "C01/ssa-rolling-update-stalls", "server-side apply")
		},
		"known:generateselector-rolling-update-stalls": func() error {
			return probeRolloutCompletes(f, func(s *Scn) {
				s.Cfg.GenerateSelector = true
				delete(s.Parent["spec"].(map[string]any), "selector")
				s.SelLabels = map[string]string{}
				s.Prog.Children[0].Labels = nil
			}, "C01/generateselector-rolling-update-stalls", "generateSelector")
		},
	}
}

func probeRolloutCompletes(f Factory, mut func(*Scn), sig, what string) error {
	env, err := probeEnv(f, "widgets", "RollingInPlace", []string{"w0", "w1", "w2"}, mut)
	if err != nil {
		return err
	}
	for i := 0; i < 4; i++ {
		env.MakeHealthy()
		env.SyncFresh()
	}
	env.editParent(1)
	for i := 0; i < 15; i++ {
		env.MakeHealthy()
		if t := env.SyncFresh(); t.Panic != "" {
			return vs.Violf("C01/panic", "%s", t.Panic)
		}
	}
	for _, n := range []string{"w0", "w1", "w2"} {
		w := env.W.Sim.Get("widgets", "ns1", n)
		if w == nil || w["spec"].(map[string]any)["v"] != "v2" {
			return vs.Violf(sig, "rolling update with %s: after 15 fair syncs %s is still %v; parent status %v", what, n, w["spec"], env.Parent()["status"])
		}
	}
	return nil
}

// ProbesC02 returns the probes for C02's open findings.
func ProbesC02(f Factory) map[string]func() error {
	return map[string]func() error{
		"known:ssa-child-born-unowned": func() error {
			env, err := probeEnv(f, "widgets", "InPlace", []string{"w0"}, func(s *Scn) { s.Cfg.SSA = true })
			if err != nil {
				return err
			}
			env.SyncFresh()
			w := env.W.Sim.Get("widgets", "ns1", "w0")
			if w != nil && ControllerOf(w) != env.ParentUID {
				return vs.Violf("C02/ssa-child-born-unowned", "server-side apply created Widget w0 with ownerReferences %v instead of a controller reference to its parent", metaOfMap(w)["ownerReferences"])
			}
			return nil
		},
		"known:ssa-patch-on-uncontrolled-object": func() error {
			env, err := probeEnv(f, "widgets", "InPlace", []string{"w0"}, func(s *Scn) { s.Cfg.SSA = true })
			if err != nil {
				return err
			}
			env.W.Sim.ExtCreate("widgets", map[string]any{"metadata": map[string]any{"name": "w0", "namespace": "ns1", "labels": map[string]any{"app": "p1"},
				"ownerReferences": []any{map[string]any{"apiVersion": "ex.io/v1", "kind": "Thing", "name": "other", "uid": "uid-foreign", "controller": true}}}, "spec": map[string]any{"v": "theirs"}})
			t := env.SyncFresh()
			for _, r := range t.Writes() {
				if r.Def.Resource == "widgets" && r.Name == "w0" && r.Accepted() && r.Pre != nil && ControllerOf(r.Pre) == "uid-foreign" && !vs.JSONEqual(stripServerFields(r.Pre), stripServerFields(r.Post)) {
					return vs.Violf("C02/ssa-patch-on-uncontrolled-object", "%s overwrote an object controlled by another owner (uid-foreign)", r.String())
				}
			}
			return nil
		},
		"known:delete-after-ownership-transfer": func() error {
			env, err := probeEnv(f, "widgets", "InPlace", []string{"w0", "w1"}, nil)
			if err != nil {
				return err
			}
			env.SyncFresh()
			env.SyncFresh()
			// w1 is no longer desired; right before its DELETE another owner takes it over (same UID)
			env.Scn.Prog.Children[0].Names = []string{"w0"}
			env.Scn.Prog.Install(env.W, "composite")
			env.W.SyncAll()
			env.W.Sim.Before = func(r *vs.Request) *vs.Fault {
				if r.Verb == "delete" && r.Name == "w1" {
					env.W.Sim.ExtUpdate("widgets", "ns1", "w1", func(o map[string]any) {
						o["metadata"].(map[string]any)["ownerReferences"] = []any{map[string]any{"apiVersion": "ex.io/v1", "kind": "Thing", "name": "other", "uid": "uid-foreign", "controller": true}}
					})
				}
				return nil
			}
			t := env.Sync()
			env.W.Sim.Before = nil
			for _, r := range t.Reqs {
				if r.Verb == "delete" && r.Name == "w1" && r.Accepted() && ControllerOf(r.Pre) != env.ParentUID {
					return vs.Violf("C02/delete-after-ownership-transfer", "%s deleted an object whose controller reference had been handed to %s after it was cached", r.String(), ControllerOf(r.Pre))
				}
			}
			return nil
		},
	}
}

// ProbesC08 returns the probes for C08's open findings.
func ProbesC08(f Factory) map[string]func() error {
	return map[string]func() error{
		"known:cluster-scoped-parent-cannot-roll": func() error {
			env, err := probeEnv(f, "widgets", "RollingInPlace", []string{"w0"}, func(s *Scn) {
				s.Cfg.ParentResource = "cthings"
				s.Parent["kind"] = "CThing"
				delete(s.Parent["metadata"].(map[string]any), "namespace")
				s.Prog.Children[0].Namespaces = []string{"ns1"}
			})
			if err != nil {
				return err
			}
			var last *SyncTrace
			for i := 0; i < 3; i++ {
				last = env.SyncFresh()
			}
			if last.Err != nil {
				return vs.Violf("C08/cluster-scoped-parent-cannot-roll", "a cluster-scoped parent with a rolling child strategy never gets anywhere: every sync fails with %v", last.Err)
			}
			if env.W.Sim.Get("widgets", "ns1", "w0") == nil {
				return vs.Violf("C08/cluster-scoped-parent-cannot-roll", "a cluster-scoped parent with a rolling child strategy never creates its child")
			}
			return nil
		},
	}
}

var _ = fmt.Sprint
