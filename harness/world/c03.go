package verifworld

import (
	"fmt"
	"strings"

	vs "metacontroller/pkg/internal/verifsim"
)

// expectedChildrenView computes, independently of metacontroller, the children
// (attachments) map a hook must be sent, from the cache snapshot taken before
// the sync and the sync's accepted adoption edits.
func expectedChildrenView(e *Env, t *SyncTrace, parent map[string]any, class func(string)) map[string]any {
	cfg := &e.Scn.Cfg
	uid := metaStr(parent, "uid")
	pns := metaStr(parent, "namespace")
	var included []map[string]any
	for _, res := range e.ChildResources() {
		for _, o := range t.PreCache[res] {
			if pns != "" && metaStr(o, "namespace") != pns {
				class("excluded:other-namespace")
				continue
			}
			ctl := ControllerOf(o)
			if cfg.Kind == "decorator" {
				if ctl != uid {
					class("excluded:not-controlled-by-target")
					continue
				}
				if AnnotationsOf(o)["metacontroller.k8s.io/decorator-controller"] != cfg.Name {
					class("excluded:marker")
					continue
				}
				class("included:attachment")
				included = append(included, o)
				continue
			}
			matches := e.selectorMatches(parent, LabelsOf(o))
			switch {
			case ctl == uid && matches:
				class("included:owned")
				included = append(included, o)
			case ctl == uid:
				class("excluded:owned-nonmatching(released)")
			case ctl != "":
				class("excluded:foreign-owned")
			case !matches:
				class("excluded:nonmatching-orphan")
			case IsDeleting(o):
				class("excluded:deleting-orphan")
			case IsDeleting(parent):
				class("excluded:parent-deleting")
			default:
				// matching orphan: included iff its adoption edit was accepted in this sync
				adopted := false
				for _, r := range t.Reqs {
					if r.Verb == "update" && r.Accepted() && r.Def.Resource == res && r.Name == metaStr(o, "name") && r.Namespace == metaStr(o, "namespace") && ControllerOf(r.Post) == uid && metaStr(r.Post, "uid") == metaStr(o, "uid") {
						adopted = true
					}
				}
				if adopted {
					class("included:adopted")
					included = append(included, o)
				} else {
					class("excluded:adoption-not-accepted")
				}
			}
		}
	}
	for _, d := range e.W.Sim.Defs() {
		if cfg.ChildCfgOf(d.Resource) != nil || d.Resource == cfg.ParentResource || d.Resource == "controllerrevisions" || d.Resource == "namespaces" {
			continue
		}
		for _, o := range t.PreCache[d.Resource] {
			if ControllerOf(o) == uid {
				class("excluded:undeclared-kind")
			}
		}
	}
	return WireChildren(e.W.Sim, e.ChildResources(), pns, included)
}

// PropC03: the hook sees exactly the owned children, in the documented shape.
func PropC03(c *vs.Case, f Factory, kind string) error {
	scn := GenScn(c, GenOpts{Kind: kind, AllowRolling: false, AllowSSA: false, AllowFinalize: true})
	env, err := NewEnv(scn, f)
	if err != nil {
		return fmt.Errorf("harness: %v", err)
	}
	seeds := SeedStore(c, env, SeedOpts{ForeignOnDesiredName: true, Max: 9, Undeclared: true, Deleting: true})
	c.Describe(func() any { return map[string]any{"scenario": scn, "seeds": seeds} })
	env.W.SyncAll()
	syncs := 1 + c.Int(3)
	sawIncl, sawExcl := false, false
	for s := 0; s < syncs; s++ {
		if s > 0 {
			for _, r := range env.W.ResourceNames() {
				if c.Prob(3, 4) {
					env.W.SyncCache(r)
				}
			}
		}
		if c.Prob(1, 5) {
			// the parent starts deleting (held by a foreign finalizer): a dying parent neither adopts nor releases
			env.W.Sim.ExtUpdate(scn.Cfg.ParentResource, scn.ParentNS(), scn.ParentName(), func(o map[string]any) {
				m := o["metadata"].(map[string]any)
				fs, _ := m["finalizers"].([]any)
				m["finalizers"] = append(fs, "example.com/hold")
			})
			env.W.Sim.ExtDelete(scn.Cfg.ParentResource, scn.ParentNS(), scn.ParentName(), "")
			if c.Bool() {
				env.W.SyncCache(scn.Cfg.ParentResource)
				c.Class("parent-deleting")
			} else {
				// the cache still shows the parent alive: adoptions are refused by the uncached re-read, and
				// an orphan whose adoption was refused is nobody's child
				c.Class("parent-deleting-cache-stale")
			}
		}
		hiddenRes := ""
		if s > 0 && c.Prob(1, 6) {
			// the API group of a declared child kind is momentarily missing from discovery (an aggregated API
			// server restarting): the hook may not be shown a children map without that kind's entry
			hiddenRes = scn.Cfg.Children[c.Int(len(scn.Cfg.Children))].Resource
			env.W.Sim.SetHidden(hiddenRes, true)
			env.W.Resources.VerifRefresh()
			c.Class("child-kind-missing-from-discovery")
		}
		parentCached := env.W.CachedObject(scn.Cfg.ParentResource, scn.ParentNS(), scn.ParentName())
		t := env.Sync()
		if hiddenRes != "" {
			env.W.Sim.SetHidden(hiddenRes, false)
			env.W.Resources.VerifRefresh()
		}
		if t.Panic != "" {
			return vs.Violf("C03/panic", "panic: %s", t.Panic)
		}
		if parentCached == nil {
			continue
		}
		parent := vs.CopyMap(parentCached.Object)
		for _, h := range t.Hooks {
			if h.URL == CustomizeURL || h.Request == nil {
				continue
			}
			key := "children"
			if kind == "decorator" {
				key = "attachments"
			}
			got, _ := h.Request[key].(map[string]any)
			if got == nil {
				return vs.Violf("C03/no-children-map", "hook request has no %q object: %v", key, SortedKeys(h.Request))
			}
			want := expectedChildrenView(env, t, parent, func(cl string) {
				c.Class("%s", cl)
				if strings.HasPrefix(cl, "included") {
					sawIncl = true
				} else {
					sawExcl = true
				}
			})
			if err := compareViews(got, want); err != nil {
				return withTrace(err, t)
			}
		}
		// desired children returned without a namespace land in the parent's namespace
		for _, r := range t.Reqs {
			if r.Verb == "create" && r.Def.Namespaced && r.Def.Resource != "controllerrevisions" && scn.ParentNS() != "" && r.Namespace != scn.ParentNS() {
				return vs.Violf("C03/child-outside-parent-namespace", "%s: a namespaced parent in %s created a child in namespace %q", r.String(), scn.ParentNS(), r.Namespace)
			}
		}
	}
	if sawIncl && sawExcl {
		c.NonTrivial()
	}
	if v := env.SharedStateViolation(); v != nil {
		return v
	}
	return nil
}

func compareViews(got, want map[string]any) error {
	for _, k := range SortedKeys(want) {
		g, ok := got[k].(map[string]any)
		if !ok {
			return vs.Violf("C03/group-missing", "children map lacks the entry for declared resource %q (has %v)", k, SortedKeys(got))
		}
		w := want[k].(map[string]any)
		for _, n := range SortedKeys(w) {
			gv, ok := g[n]
			if !ok {
				return vs.Violf("C03/child-missing", "group %q lacks %q, which the parent owns (has %v)", k, n, SortedKeys(g))
			}
			if !vs.JSONEqual(gv, w[n]) {
				return vs.Violf("C03/child-content-differs", "group %q entry %q differs from the cached object\ngot =%v\nwant=%v", k, n, gv, w[n])
			}
		}
		for _, n := range SortedKeys(g) {
			if _, ok := w[n]; !ok {
				return vs.Violf("C03/child-unexpected", "group %q contains %q, which must not be reported to this parent (expected %v)", k, n, SortedKeys(w))
			}
		}
	}
	for _, k := range SortedKeys(got) {
		if _, ok := want[k]; !ok {
			return vs.Violf("C03/group-unexpected", "children map has an entry %q for an undeclared resource (declared %v)", k, SortedKeys(want))
		}
	}
	return nil
}
