package verifworld

import (
	"fmt"
	"sort"
	"strings"

	vs "metacontroller/pkg/internal/verifsim"

	"k8s.io/apimachinery/pkg/apis/meta/v1/unstructured"
	"k8s.io/client-go/tools/cache"
)

// c14World holds the parents known to the handlers.
type c14World struct {
	env     *Env
	sink    EventSink
	parents []map[string]any // as cached
	fin     string
}

func (w *c14World) selected(p map[string]any) bool {
	return w.env.controllerSelectorMatches(p) || hasFinalizer(p, w.fin)
}

func pkey(p map[string]any) string { return metaStr(p, "namespace") + "/" + metaStr(p, "name") }

func u(o map[string]any) *unstructured.Unstructured {
	return &unstructured.Unstructured{Object: vs.CopyMap(o)}
}

func tomb(o map[string]any) cache.DeletedFinalStateUnknown {
	key := metaStr(o, "name")
	if ns := metaStr(o, "namespace"); ns != "" {
		key = ns + "/" + key
	}
	return cache.DeletedFinalStateUnknown{Key: key, Obj: u(o)}
}

// enqueued drains the queue and maps keys back to parents.
func (w *c14World) enqueued() (map[string]int, error) {
	out := map[string]int{}
	for _, q := range w.env.W.Queue.Take() {
		if q.Op != "Add" {
			continue
		}
		ns, name, err := w.sink.ParseKey(q.Key)
		if err != nil {
			return nil, vs.Violf("C14/unparsable-queue-key", "the handler enqueued key %q, which the controller's own sync cannot parse back to a parent: %v", q.Key, err)
		}
		out[ns+"/"+name]++
	}
	return out, nil
}

func setStr(m map[string]int) string {
	var ks []string
	for k := range m {
		ks = append(ks, k)
	}
	sort.Strings(ks)
	return "[" + strings.Join(ks, " ") + "]"
}

func (w *c14World) expect(c *vs.Case, what string, must map[string]bool, exact bool) error {
	return w.expect2(c, what, must, exact, true)
}

func (w *c14World) expect2(c *vs.Case, what string, must map[string]bool, exact, forbidUnselected bool) error {
	got, err := w.enqueued()
	if err != nil {
		return err
	}
	for k := range must {
		if got[k] == 0 {
			return vs.Violf("C14/parent-not-enqueued", "%s: parent %s must be queued, queue got %s", what, k, setStr(got))
		}
	}
	if exact {
		for k := range got {
			if !must[k] {
				return vs.Violf("C14/wrong-parent-enqueued", "%s: %s was queued but must not be (expected exactly %v)", what, k, keysOf(must))
			}
		}
	} else if forbidUnselected {
		// over-approximation allowed, but never an unselected parent
		for k := range got {
			for _, p := range w.parents {
				if pkey(p) == k && !w.selected(p) {
					return vs.Violf("C14/unselected-parent-enqueued", "%s: %s neither matches the controller selector nor carries the finalizer but was queued", what, k)
				}
			}
		}
	}
	if len(must) > 0 {
		c.NonTrivial()
	}
	return nil
}

func keysOf(m map[string]bool) []string {
	var ks []string
	for k := range m {
		ks = append(ks, k)
	}
	sort.Strings(ks)
	return ks
}

// PropC14: every change that can alter a parent's reconciliation enqueues that parent.
func PropC14(c *vs.Case, f Factory, kind string) error {
	scn := GenScn(c, GenOpts{Kind: kind, AllowFinalize: true, MaxChildKinds: 2})
	scn.Cfg.SSA = false
	scn.Cfg.IgnoreStatus = c.Prob(1, 3)
	useSel := c.Bool()
	if useSel {
		scn.Cfg.ParentSelector = map[string]string{"enabled": "yes"}
		scn.Cfg.SelAsExpressions = c.Bool()
		if kind == "decorator" && c.Bool() {
			scn.Cfg.ParentAnnSel = map[string]string{"decorate": "please"}
		}
	}
	if kind == "decorator" && c.Prob(1, 4) {
		// Two resource rules with the same plural (and kind) in different API groups; the first one, which is not
		// the parents' own, says the opposite about status changes. Each rule's flag is for its own resource only.
		scn.Cfg.TwinParent = "ignores"
		if scn.Cfg.IgnoreStatus {
			scn.Cfg.TwinParent = "heeds"
		}
		c.Class("twin-parent-resource/" + scn.Cfg.TwinParent)
	}
	scn.Cfg.CustomizeHook = c.Prob(1, 2)
	relMode := c.Int(3)
	if scn.Cfg.CustomizeHook {
		switch relMode {
		case 0:
			scn.Prog.Related = []map[string]any{{"apiVersion": "v1", "resource": "configmaps", "labelSelector": map[string]any{"matchLabels": map[string]any{"rel": "yes"}}}}
		case 1:
			scn.Prog.Related = []map[string]any{{"apiVersion": "v1", "resource": "configmaps", "names": []any{"rel-a", "rel-b"}}}
		default:
			scn.Prog.Related = []map[string]any{{"apiVersion": "v1", "resource": "configmaps", "namespace": "ns1", "names": []any{"rel-a"}},
				{"apiVersion": "ex.io/v1", "resource": "cwidgets", "labelSelector": map[string]any{"matchExpressions": []any{map[string]any{"key": "rel", "operator": "Exists"}}}}}
		}
	}
	env, err := NewEnv(scn, f)
	if err != nil {
		return fmt.Errorf("harness: %v", err)
	}
	sink, ok := env.Ctl.(EventSink)
	if !ok {
		return fmt.Errorf("harness: controller adapter has no EventSink")
	}
	w := &c14World{env: env, sink: sink, fin: scn.Cfg.FinalizerName()}
	namespaced := scn.ParentNS() != ""
	// parents p1 (from the scenario) .. p4
	mk := func(i int) map[string]any {
		p := vs.CopyMap(scn.Parent)
		m := metaOfMap(p)
		m["name"] = fmt.Sprintf("p%d", i)
		if namespaced && i == 4 {
			m["namespace"] = "ns2"
		}
		l := m["labels"].(map[string]any)
		if useSel && c.Prob(2, 3) {
			l["enabled"] = "yes"
		}
		if scn.Cfg.ParentAnnSel != nil && c.Prob(2, 3) {
			m["annotations"] = map[string]any{"decorate": "please"}
		}
		if c.Prob(1, 3) {
			m["finalizers"] = []any{w.fin}
		}
		if kind == "composite" && !scn.Cfg.GenerateSelector {
			// p3 shares p1's child selector, the others have their own
			sel := fmt.Sprintf("p%d", i)
			if i == 3 {
				sel = "p1"
			}
			p["spec"].(map[string]any)["selector"] = map[string]any{"matchLabels": map[string]any{"app": sel}}
		}
		return p
	}
	env.W.Sim.Purge(scn.Cfg.ParentResource, scn.ParentNS(), scn.ParentName())
	for i := 1; i <= 4; i++ {
		if created, err := env.W.Sim.ExtCreate(scn.Cfg.ParentResource, mk(i)); err == nil {
			w.parents = append(w.parents, created)
		}
	}
	env.W.SyncAll()
	env.W.Queue.Take()
	if c.Prob(1, 3) {
		// some parents failed their last sync: their keys sit in the rate limiter (NumRequeues > 0) waiting
		// for the retry. Events about them must be queued all the same - the retry works on older state.
		for _, p := range w.parents {
			if c.Bool() {
				for i := 0; i <= c.Int(3); i++ {
					env.W.Queue.AddRateLimited(env.Ctl.KeyFor(p))
				}
			}
		}
		env.W.Queue.Take()
		c.Class("parents-in-back-off")
	}
	var log []string
	c.Describe(func() any { return map[string]any{"scenario": scn, "parents": w.parents, "events": log} })
	pd := env.W.Sim.Def(scn.Cfg.ParentResource)

	nEvents := 4 + c.Int(6)
	for ev := 0; ev < nEvents; ev++ {
		switch c.Weighted(3, 5, 2) {
		case 0: // ---- parent event
			p := w.parents[c.Int(len(w.parents))]
			typ := c.PickStr("add", "update", "delete", "tombstone", "resync")
			what := fmt.Sprintf("parent %s of %s", typ, pkey(p))
			must := map[string]bool{}
			switch typ {
			case "add":
				sink.ParentAdd(u(p))
				if w.selected(p) {
					must[pkey(p)] = true
				}
			case "delete":
				sink.ParentDelete(u(p))
				if w.selected(p) {
					must[pkey(p)] = true
				}
			case "tombstone":
				sink.ParentDelete(tomb(p))
				if w.selected(p) {
					must[pkey(p)] = true
				}
				log = append(log, what)
				// a tombstone of an unselected parent may or may not be queued (nothing left to act on)
				if err := w.expect2(c, what, must, false, false); err != nil {
					return err
				}
				continue
			case "resync":
				sink.ParentUpdate(u(p), u(p))
				if w.selected(p) && !scn.Cfg.IgnoreStatus {
					must[pkey(p)] = true
				}
				if scn.Cfg.IgnoreStatus {
					// The same object as old and new (a resync, or the replay of the cache to a new handler) is no
					// status change. C14 lets an implementation drop it under ignoreStatusChanges ("updates that
					// change neither generation, labels, annotations nor deletion state") but does not demand that;
					// since /repo fix for the deaf-controller defect it is queued. Not judged here beyond "never an
					// unselected parent" - the live job (second controller on warm informers) is what needs it.
					if IsDeleting(p) && w.selected(p) {
						must[pkey(p)] = true
					}
					log = append(log, what)
					if err := w.expect2(c, what, must, false, true); err != nil {
						return err
					}
					continue
				}
			case "update":
				cur := vs.CopyMap(p)
				cm := cur["metadata"].(map[string]any)
				cm["resourceVersion"] = fmt.Sprintf("9%03d", ev) // every real update carries a new resourceVersion
				change := c.PickStr("status", "labels", "annotations", "generation", "deleting")
				what += " (" + change + ")"
				switch change {
				case "status":
					cur["status"] = map[string]any{"changed": fmt.Sprint(ev)}
				case "labels":
					l, _ := cm["labels"].(map[string]any)
					if l == nil {
						l = map[string]any{}
						cm["labels"] = l
					}
					l["touched"] = fmt.Sprint(ev)
				case "annotations":
					a, _ := cm["annotations"].(map[string]any)
					if a == nil {
						a = map[string]any{}
						cm["annotations"] = a
					}
					a["touched"] = fmt.Sprint(ev)
				case "generation":
					g, _ := toF(cm["generation"])
					cm["generation"] = int64(g) + 1
					cur["spec"].(map[string]any)["other"] = fmt.Sprint(ev)
				case "deleting":
					cm["deletionTimestamp"] = "2024-02-02T00:00:00Z"
				}
				cm["resourceVersion"] = fmt.Sprint(9000 + ev)
				sink.ParentUpdate(u(p), u(cur))
				dropped := scn.Cfg.IgnoreStatus && change == "status" && !IsDeleting(cur)
				if w.selected(cur) && !dropped {
					must[pkey(p)] = true
				}
			}
			log = append(log, what)
			if err := w.expect(c, what, must, true); err != nil {
				return err
			}
		case 1: // ---- child event
			ch := scn.Cfg.Children[c.Int(len(scn.Cfg.Children))]
			d := env.W.Sim.Def(ch.Resource)
			target := w.parents[c.Int(len(w.parents))]
			child := map[string]any{"apiVersion": d.APIVersion(), "kind": d.Kind}
			meta := map[string]any{"name": fmt.Sprintf("child%d", ev), "uid": fmt.Sprintf("uid-c%d", ev), "resourceVersion": "500"}
			if d.Namespaced {
				ns := metaStr(target, "namespace")
				if ns == "" {
					ns = c.PickStr("ns1", "ns2")
				}
				if namespaced && c.Prob(1, 5) {
					ns = "ns2" // a child in another namespace than its would-be parent
				}
				meta["namespace"] = ns
			}
			// labels: match the target's child selector or not
			lbl := map[string]any{}
			labelsMatch := c.Prob(2, 3)
			if labelsMatch {
				if scn.Cfg.GenerateSelector {
					lbl["controller-uid"] = metaStr(target, "uid")
				} else if sel, ok := getPath(target, "spec.selector.matchLabels"); ok {
					for k, v := range sel.(map[string]any) {
						lbl[k] = v
					}
				}
			}
			meta["labels"] = lbl
			refMode := c.PickStr("none", "controller", "wrong-uid", "wrong-kind", "wrong-group", "plain-owner", "other-version")
			ref := map[string]any{"apiVersion": target["apiVersion"], "kind": target["kind"], "name": metaStr(target, "name"), "uid": metaStr(target, "uid"), "controller": true}
			switch refMode {
			case "none":
				ref = nil
			case "wrong-uid":
				ref["uid"] = "uid-gone"
			case "wrong-kind":
				ref["kind"] = "SomethingElse"
			case "wrong-group":
				ref["apiVersion"] = "zzz.io/v1"
			case "plain-owner":
				delete(ref, "controller")
			case "other-version":
				ref["apiVersion"] = pd.Group + "/v9"
			}
			if ref != nil {
				meta["ownerReferences"] = []any{ref}
			}
			if kind == "decorator" {
				meta["annotations"] = map[string]any{"metacontroller.k8s.io/decorator-controller": scn.Cfg.Name}
			}
			deleting := c.Prob(1, 6)
			if deleting {
				meta["deletionTimestamp"] = "2024-02-02T00:00:00Z"
			}
			child["metadata"] = meta
			typ := c.PickStr("add", "update", "update-same-rv", "delete", "tombstone")
			what := fmt.Sprintf("child %s %s/%s ref=%s labelsMatch=%v deleting=%v target=%s", typ, meta["namespace"], meta["name"], refMode, labelsMatch, deleting, pkey(target))
			// reference: who must be woken
			must := map[string]bool{}
			controlled := refMode == "controller" || refMode == "wrong-uid" || refMode == "wrong-kind" || refMode == "wrong-group" || refMode == "other-version"
			resolveOK := func() (map[string]any, bool) {
				if refMode != "controller" && refMode != "other-version" {
					return nil, false
				}
				// the parent is looked up by name in the child's namespace (namespaced parents)
				for _, p := range w.parents {
					if metaStr(p, "name") != metaStr(target, "name") || metaStr(p, "uid") != fmt.Sprint(ref["uid"]) {
						continue
					}
					if namespaced && metaStr(p, "namespace") != fmt.Sprint(meta["namespace"]) {
						continue
					}
					return p, true
				}
				return nil, false
			}
			asDelete := typ == "delete" || typ == "tombstone" || deleting
			switch {
			case typ == "update-same-rv":
				// resync replay: nothing
			case controlled:
				if p, ok := resolveOK(); ok && w.selected(p) {
					must[pkey(p)] = true
				}
			case asDelete:
				// orphans being deleted concern nobody
			case kind == "composite":
				// orphan (no controller reference): every selected parent whose child selector matches
				for _, p := range w.parents {
					if namespaced && metaStr(p, "namespace") != fmt.Sprint(meta["namespace"]) {
						continue
					}
					if env.selectorMatches(p, LabelsOf(child)) && w.selected(p) {
						must[pkey(p)] = true
					}
				}
			}
			switch typ {
			case "add":
				sink.ChildAdd(u(child))
			case "update":
				old := vs.CopyMap(child)
				metaOfMap(old)["resourceVersion"] = "499"
				sink.ChildUpdate(u(old), u(child))
			case "update-same-rv":
				sink.ChildUpdate(u(child), u(child))
			case "delete":
				sink.ChildDelete(u(child))
			case "tombstone":
				sink.ChildDelete(tomb(child))
			}
			log = append(log, what)
			c.Class("child:%s/%s", typ, refMode)
			if err := w.expect(c, what, must, true); err != nil {
				return err
			}
		default: // ---- related object event
			if !scn.Cfg.CustomizeHook {
				continue
			}
			res := "configmaps"
			if relMode == 2 && c.Bool() {
				res = "cwidgets"
			}
			d := env.W.Sim.Def(res)
			mkRel := func(sel bool) map[string]any {
				o := map[string]any{"apiVersion": d.APIVersion(), "kind": d.Kind}
				m := map[string]any{"name": c.PickStr("rel-a", "rel-b", "rel-x"), "uid": "uid-rel", "resourceVersion": fmt.Sprint(700 + ev)}
				if d.Namespaced {
					m["namespace"] = c.PickStr("ns1", "ns2")
				}
				if sel {
					m["labels"] = map[string]any{"rel": "yes"}
				} else {
					m["labels"] = map[string]any{"rel2": "no"}
				}
				o["metadata"] = m
				return o
			}
			cur := mkRel(c.Bool())
			old := vs.CopyMap(cur)
			metaOfMap(old)["resourceVersion"] = "600"
			if c.Bool() {
				// the update moves the object into / out of a label selection
				if _, has := metaOfMap(old)["labels"].(map[string]any)["rel"]; has {
					metaOfMap(old)["labels"] = map[string]any{"rel2": "no"}
				} else {
					metaOfMap(old)["labels"] = map[string]any{"rel": "yes"}
				}
			}
			typ := c.PickStr("add", "update", "update-same-rv", "delete", "tombstone")
			objs := []map[string]any{cur}
			if typ == "update" {
				objs = append(objs, old)
			}
			must := map[string]bool{}
			if typ != "update-same-rv" {
				for _, p := range w.parents {
					if !w.selected(p) {
						continue
					}
					for _, o := range objs {
						if relatedSelected(env, p, scn.Prog.Related, o) {
							must[pkey(p)] = true
						}
					}
				}
			}
			switch typ {
			case "add":
				sink.RelatedAdd(u(cur))
			case "update":
				sink.RelatedUpdate(u(old), u(cur))
			case "update-same-rv":
				sink.RelatedUpdate(u(cur), u(cur))
			case "delete":
				sink.RelatedDelete(u(cur))
			case "tombstone":
				sink.RelatedDelete(tomb(cur))
			}
			what := fmt.Sprintf("related %s %s %s/%s labels=%v (old labels %v)", typ, res, metaStr(cur, "namespace"), metaStr(cur, "name"), LabelsOf(cur), LabelsOf(old))
			log = append(log, what)
			c.Class("related:%s", typ)
			if err := w.expect(c, what, must, typ == "update-same-rv"); err != nil {
				return err
			}
		}
	}
	return nil
}

// relatedSelected: would obj appear in parent's related map under these rules?
// (independent of metacontroller: label rules select within the parent's
// namespace for namespaced parents; namespace/names rules by name.)
func relatedSelected(e *Env, parent map[string]any, rules []map[string]any, obj map[string]any) bool {
	pns := metaStr(parent, "namespace")
	for _, r := range rules {
		d := e.W.Sim.Def(fmt.Sprint(r["resource"]))
		if d.Kind != obj["kind"] || d.APIVersion() != obj["apiVersion"] {
			continue
		}
		ons := metaStr(obj, "namespace")
		if pns != "" && ons != pns {
			continue // a namespaced parent only ever sees its own namespace
		}
		_, hasSel := r["labelSelector"]
		rns, _ := r["namespace"].(string)
		names, _ := r["names"].([]any)
		if !hasSel && rns == "" && len(names) == 0 {
			return true // a bare rule selects every object of the resource
		}
		if hasSel && rns == "" && len(names) == 0 {
			if labelSelectorMatches(r["labelSelector"], LabelsOf(obj)) {
				return true
			}
			continue
		}
		if hasSel {
			continue // invalid mix
		}
		if rns != "" && rns != ons {
			continue
		}
		if len(names) == 0 {
			return true
		}
		for _, n := range names {
			if n == metaStr(obj, "name") {
				return true
			}
		}
	}
	return false
}

func labelSelectorMatches(sel any, lbl map[string]string) bool {
	sm, _ := sel.(map[string]any)
	ml, _ := sm["matchLabels"].(map[string]any)
	for k, v := range ml {
		if lbl[k] != fmt.Sprint(v) {
			return false
		}
	}
	mes, _ := sm["matchExpressions"].([]any)
	for _, x := range mes {
		me, _ := x.(map[string]any)
		key, _ := me["key"].(string)
		op, _ := me["operator"].(string)
		vals, _ := me["values"].([]any)
		val, has := lbl[key]
		in := false
		for _, v := range vals {
			if fmt.Sprint(v) == val {
				in = true
			}
		}
		switch op {
		case "In":
			if !has || !in {
				return false
			}
		case "NotIn":
			if has && in {
				return false
			}
		case "Exists":
			if !has {
				return false
			}
		case "DoesNotExist":
			if has {
				return false
			}
		}
	}
	return true
}
