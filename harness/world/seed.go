package verifworld

import (
	"encoding/json"
	"fmt"

	vs "metacontroller/pkg/internal/verifsim"
)

// Seed is one object placed in the initial store, with the role it plays.
type Seed struct {
	Role     string         `json:"role"`
	Resource string         `json:"resource"`
	Obj      map[string]any `json:"object"`
}

// SeedOpts selects which classes of initial objects may be generated.
type SeedOpts struct {
	// ForeignOnDesiredName allows look-alikes to occupy a desired child's name
	// (excluded by C01's precondition, wanted by C02).
	ForeignOnDesiredName bool
	Max                  int
	// Undeclared also seeds objects of kinds the controller does not declare.
	Undeclared bool
	// Deleting also seeds objects that are pending deletion.
	Deleting bool
}

// OwnerRefTo builds a controller owner reference to obj.
func OwnerRefTo(obj map[string]any, controller bool) map[string]any {
	r := map[string]any{"apiVersion": obj["apiVersion"], "kind": obj["kind"], "name": metaStr(obj, "name"), "uid": metaStr(obj, "uid")}
	if controller {
		r["controller"] = true
		r["blockOwnerDeletion"] = true
	}
	return r
}

func withLastApplied(obj map[string]any) map[string]any {
	c := vs.CopyMap(obj)
	b, _ := json.Marshal(obj)
	m := c["metadata"].(map[string]any)
	a, _ := m["annotations"].(map[string]any)
	if a == nil {
		a = map[string]any{}
		m["annotations"] = a
	}
	a[vs.LastAppliedAnnotation] = string(b)
	return c
}

// MatchLabels returns labels that satisfy the parent's child selector.
func (e *Env) MatchLabels() map[string]any {
	out := map[string]any{}
	if e.Scn.Cfg.Kind == "composite" && e.Scn.Cfg.GenerateSelector {
		out["controller-uid"] = e.ParentUID
		return out
	}
	for k, v := range e.Scn.SelLabels {
		out[k] = v
	}
	return out
}

// SeedStore populates the store with the look-alike classes listed in the
// quantifiers of C01-C04. Returns what was created.
func SeedStore(c *vs.Case, e *Env, o SeedOpts) []Seed {
	var seeds []Seed
	parent := e.Parent()
	desired := e.Scn.Prog.DesiredAll(e.W.Sim, parent)
	desiredNames := map[string]bool{}
	for _, d := range desired {
		n := e.NormalizeDesired(d)
		desiredNames[ObjID(n)] = true
	}
	max := o.Max
	if max == 0 {
		max = 6
	}
	n := c.Int(max + 1)
	pns := e.Scn.ParentNS()
	for i := 0; i < n; i++ {
		ch := e.Scn.Cfg.Children[c.Int(len(e.Scn.Cfg.Children))]
		undeclared := false
		if o.Undeclared && c.Prob(1, 5) {
			pool := []string{"configmaps", "widgets", "gadgets"}
			if pns == "" {
				pool = childPool
			}
			r := pool[c.Int(len(pool))]
			if e.Scn.Cfg.ChildCfgOf(r) == nil {
				ch = ChildCfg{Resource: r}
				undeclared = true
			}
		}
		d := e.W.Sim.Def(ch.Resource)
		ns := ""
		if d.Namespaced {
			ns = pns
			if ns == "" {
				ns = c.PickStr("ns1", "ns2")
			}
		}
		// name: a desired one (if permitted / sensible) or a fresh one
		name := fmt.Sprintf("seed%d", i)
		var like map[string]any
		if len(desired) > 0 && !undeclared && c.Prob(1, 2) {
			cand := e.NormalizeDesired(desired[c.Int(len(desired))])
			if cand["kind"] == d.Kind {
				like = cand
				name = metaStr(cand, "name")
				if d.Namespaced {
					ns = metaStr(cand, "namespace")
				}
			}
		}
		obj := map[string]any{"apiVersion": d.APIVersion(), "kind": d.Kind}
		meta := map[string]any{"name": name}
		if ns != "" {
			meta["namespace"] = ns
		}
		obj["metadata"] = meta
		body := GenChildFields(c, ch.Resource)
		for k, v := range body {
			obj[k] = substRefs(v, parent)
		}
		role := ""
		onDesired := like != nil
		roles := []string{"matching-orphan", "stale-owned", "foreign-owned", "nonmatching-orphan", "other-namespace", "owned-nonmatching", "extra-owner", "matching-orphan-plain-owner"}
		if e.Scn.Cfg.Kind == "decorator" {
			roles = []string{"dec-unmarked", "dec-other-marker", "stale-owned", "foreign-owned", "nonmatching-orphan", "other-namespace", "dec-plain-owner"}
		}
		role = roles[c.Int(len(roles))]
		if undeclared {
			role = "stale-owned"
		}
		deleting := o.Deleting && c.Prob(1, 5)
		labels := map[string]any{}
		switch role {
		case "matching-orphan":
			// adoptable: a matching orphan on a desired name is fine for C01 (it is not foreign: it gets adopted)
			for k, v := range e.MatchLabels() {
				labels[k] = v
			}
		case "matching-orphan-plain-owner":
			// lists the parent as an ordinary (non-controller) owner: still an orphan, adoptable
			for k, v := range e.MatchLabels() {
				labels[k] = v
			}
			meta["ownerReferences"] = []any{OwnerRefTo(parent, false)}
		case "dec-plain-owner":
			// controlled by someone else, the target is only a plain owner; carries our marker
			meta["ownerReferences"] = []any{
				map[string]any{"apiVersion": parent["apiVersion"], "kind": parent["kind"], "name": "other-parent", "uid": "uid-foreign", "controller": true, "blockOwnerDeletion": true},
				OwnerRefTo(parent, false)}
			meta["annotations"] = map[string]any{"metacontroller.k8s.io/decorator-controller": e.Scn.Cfg.Name}
		case "stale-owned", "extra-owner":
			for k, v := range e.MatchLabels() {
				labels[k] = v
			}
			refs := []any{OwnerRefTo(parent, true)}
			if role == "extra-owner" {
				refs = append(refs, map[string]any{"apiVersion": "v1", "kind": "ConfigMap", "name": "someone", "uid": "uid-bystander"})
			}
			meta["ownerReferences"] = refs
			if e.Scn.Cfg.Kind == "decorator" {
				meta["annotations"] = map[string]any{"metacontroller.k8s.io/decorator-controller": e.Scn.Cfg.Name}
			}
		case "owned-nonmatching":
			labels["app"] = "someone-else"
			refs := []any{OwnerRefTo(parent, true)}
			if c.Bool() {
				refs = []any{map[string]any{"apiVersion": "v1", "kind": "ConfigMap", "name": "someone", "uid": "uid-bystander"}, OwnerRefTo(parent, true),
					map[string]any{"apiVersion": "v1", "kind": "ConfigMap", "name": "other", "uid": "uid-bystander2", "blockOwnerDeletion": true}}
			}
			meta["ownerReferences"] = refs
		case "foreign-owned":
			for k, v := range e.MatchLabels() {
				labels[k] = v
			}
			meta["ownerReferences"] = []any{map[string]any{"apiVersion": parent["apiVersion"], "kind": parent["kind"], "name": "other-parent", "uid": "uid-foreign", "controller": true, "blockOwnerDeletion": true}}
			if e.Scn.Cfg.Kind == "decorator" {
				meta["annotations"] = map[string]any{"metacontroller.k8s.io/decorator-controller": e.Scn.Cfg.Name}
			}
		case "nonmatching-orphan":
			labels["app"] = "unrelated"
		case "other-namespace":
			if !d.Namespaced || pns == "" {
				continue
			}
			meta["namespace"] = "ns2"
			for k, v := range e.MatchLabels() {
				labels[k] = v
			}
			if c.Bool() {
				meta["ownerReferences"] = []any{OwnerRefTo(parent, true)}
			}
			onDesired = false
		case "dec-unmarked":
			meta["ownerReferences"] = []any{OwnerRefTo(parent, true)}
		case "dec-other-marker":
			meta["ownerReferences"] = []any{OwnerRefTo(parent, true)}
			meta["annotations"] = map[string]any{"metacontroller.k8s.io/decorator-controller": "another-decorator"}
		}
		// C01's precondition: no foreign object occupies a desired name. Objects
		// that the parent neither owns nor may adopt are "foreign" in that sense.
		foreign := role == "foreign-owned" || role == "nonmatching-orphan" || role == "owned-nonmatching" || role == "dec-plain-owner" || role == "dec-unmarked" || role == "dec-other-marker" ||
			(role == "matching-orphan" && e.Scn.Cfg.Kind == "decorator")
		if onDesired && foreign && !o.ForeignOnDesiredName {
			meta["name"] = fmt.Sprintf("seed%d", i)
			onDesired = false
		}
		if len(labels) > 0 {
			meta["labels"] = labels
		}
		if role == "stale-owned" || role == "extra-owner" || role == "owned-nonmatching" {
			obj = withLastAppliedOf(obj)
		}
		if deleting {
			// (on the object as it is now: withLastAppliedOf returned a copy)
			obj["metadata"].(map[string]any)["finalizers"] = []any{"example.com/hold"}
		}
		created, err := e.W.Sim.ExtCreate(ch.Resource, obj)
		if err != nil {
			continue // name collision with an earlier seed
		}
		if deleting {
			e.W.Sim.ExtDelete(ch.Resource, metaStr(created, "namespace"), metaStr(created, "name"), "")
			created = e.W.Sim.Get(ch.Resource, metaStr(created, "namespace"), metaStr(created, "name"))
			role += "+deleting"
		}
		if undeclared {
			role = "undeclared-kind-owned"
		}
		r := role
		if onDesired {
			r += "@desired-name"
		}
		c.Class("seed:%s", r)
		seeds = append(seeds, Seed{Role: r, Resource: ch.Resource, Obj: created})
	}
	return seeds
}

// withLastAppliedOf records as last-applied the part of the object a hook
// would have specified (everything except ownerReferences and the record).
func withLastAppliedOf(obj map[string]any) map[string]any {
	spec := vs.CopyMap(obj)
	m := spec["metadata"].(map[string]any)
	delete(m, "ownerReferences")
	out := withLastApplied(spec)
	out["metadata"].(map[string]any)["ownerReferences"] = obj["metadata"].(map[string]any)["ownerReferences"]
	return out
}
