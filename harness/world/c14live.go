package verifworld

import (
	"context"
	"fmt"
	"strings"
	"time"

	"metacontroller/pkg/apis/metacontroller/v1alpha1"
	vs "metacontroller/pkg/internal/verifsim"

	metav1 "k8s.io/apimachinery/pkg/apis/meta/v1"
)

// PropC14Live checks the positive clauses of C14, and "a controlled child wakes only the parent its owner
// reference resolves to", on the path metacontroller itself uses: a hosted controller started through
// Reconcile (real constructors, real shared informers, the controller registering its own event handlers,
// its own work queue and workers). Two parents p1 and p2 each get one child from the hook. After the
// controller has gone quiet, one event at a time is produced in the cluster and the hook must be called
// again about the parent concerned - and, for child events, not about the other parent.
func PropC14Live(c *vs.Case, kind string, env *C20Env, drv C20Driver) error {
	child := c.PickStr("widgets", "configmaps")
	nOps := 2 + c.Int(4)
	finalize := c.Bool()
	ignoreStatus := c.Bool() // ignoreStatusChanges: parent updates that change nothing but status are not queued
	var log []string
	c.Describe(func() any {
		return map[string]any{"kind": kind, "child": child, "finalizeHook": finalize, "ignoreStatusChanges": ignoreStatus, "ops": log}
	})
	d := env.W.Sim.Def(child)
	field := "spec"
	if child == "configmaps" {
		field = "data"
	}
	env.Router.mu.Lock()
	env.Router.Answer = func(u string, body map[string]any) map[string]any {
		if strings.HasSuffix(u, "/finalize") {
			// the documented contract: ask for nothing and report finalized once nothing is observed any more
			observed := 0
			for _, k := range []string{"children", "attachments"} {
				groups, _ := body[k].(map[string]any)
				for _, g := range groups {
					if m, ok := g.(map[string]any); ok {
						observed += len(m)
					}
				}
			}
			return map[string]any{"children": []any{}, "attachments": []any{}, "finalized": observed == 0}
		}
		if !strings.HasSuffix(u, "/sync") {
			return nil
		}
		if strings.Contains(u, "/live2/") {
			return map[string]any{"children": []any{}, "attachments": []any{}, "status": map[string]any{"seen": true}}
		}
		var parent map[string]any
		for _, k := range []string{"parent", "object"} {
			if p, ok := body[k].(map[string]any); ok {
				parent = p
			}
		}
		v, _ := getPath(parent, "spec.v")
		ch := map[string]any{"apiVersion": d.APIVersion(), "kind": d.Kind,
			"metadata": map[string]any{"name": metaStr(parent, "name") + "-c"},
			field:      map[string]any{"v": fmt.Sprint(v)}}
		return map[string]any{"children": []any{ch}, "attachments": []any{ch}, "status": map[string]any{"seen": true}}
	}
	env.Router.mu.Unlock()
	defer func() {
		env.Router.mu.Lock()
		env.Router.Answer = nil
		env.Router.mu.Unlock()
	}()
	spec := c20Spec{Version: 1, Variant: "plain", Parent: "things", Child: child, Valid: true}
	if finalize {
		spec.Variant = "finalize"
	}
	ctx := context.Background()
	if kind == "composite" {
		obj := spec.CompositeObj("live", nil)
		obj.SetGeneration(1)
		if ignoreStatus {
			obj.Spec.ParentResource.IgnoreStatusChanges = &ignoreStatus
		}
		if err := env.K8s.Create(ctx, obj); err != nil {
			return fmt.Errorf("harness: %v", err)
		}
	} else {
		obj := spec.DecoratorObj("live", nil)
		obj.SetGeneration(1)
		if ignoreStatus {
			obj.Spec.Resources[0].IgnoreStatusChanges = &ignoreStatus
		}
		if err := env.K8s.Create(ctx, obj); err != nil {
			return fmt.Errorf("harness: %v", err)
		}
	}
	mkParent := func(name string) {
		env.W.Sim.ExtCreate("things", map[string]any{"apiVersion": "ex.io/v1", "kind": "Thing",
			"metadata": map[string]any{"name": name, "namespace": "ns1"}, "spec": map[string]any{"v": "a"}})
	}
	mkParent("p1")
	mkParent("p2")
	if err := drv.Reconcile("live"); err != nil {
		return fmt.Errorf("harness: reconcile: %v", err)
	}
	defer func() {
		if kind == "composite" {
			_ = env.K8s.Delete(ctx, &v1alpha1.CompositeController{ObjectMeta: metav1.ObjectMeta{Name: "live"}})
		} else {
			_ = env.K8s.Delete(ctx, &v1alpha1.DecoratorController{ObjectMeta: metav1.ObjectMeta{Name: "live"}})
		}
		func() {
			defer func() { _ = recover() }()
			_ = drv.Reconcile("live")
		}()
	}()
	prefix := spec.urlPrefix("live") + "sync"
	parents := []string{"p1", "p2"}
	childV := func(p string) (string, bool) {
		o := env.W.Sim.Get(child, "ns1", p+"-c")
		if o == nil {
			return "", false
		}
		v, _ := getPath(o, field+".v")
		return fmt.Sprint(v), true
	}
	parentV := func(p string) string {
		o := env.W.Sim.Get("things", "ns1", p)
		v, _ := getPath(o, "spec.v")
		return fmt.Sprint(v)
	}
	converged := func() bool {
		for _, p := range parents {
			if env.W.Sim.Get("things", "ns1", p) == nil {
				continue
			}
			if v, ok := childV(p); !ok || v != parentV(p) {
				return false
			}
		}
		return true
	}
	if !pollFor(10*time.Second, converged) {
		var reqs []string
		for _, r := range env.W.Sim.LogSince(0) {
			if r.Mutating() || r.Code >= 400 {
				reqs = append(reqs, fmt.Sprintf("%s %s %s/%s %s -> %d %s", r.Verb, r.Def.Resource, r.Namespace, r.Name, r.Subresource, r.Code, r.Message))
			}
		}
		n1, _ := env.Router.callsAboutSince(prefix, "p1", time.Time{})
		n2, _ := env.Router.callsAboutSince(prefix, "p2", time.Time{})
		return vs.Violf("C20/running-controller-deaf", "10 s after the controller was started the children of the existing parents are not in place (sync-hook calls: p1 %d, p2 %d; requests: %v)", n1, n2, reqs)
	}
	quiet := func() bool {
		return pollFor(3*time.Second, func() bool {
			t0 := time.Now().Add(-100 * time.Millisecond)
			for _, p := range parents {
				if n, _ := env.Router.callsAboutSince(prefix, p, t0); n > 0 {
					return false
				}
			}
			return true
		})
	}
	for i := 0; i < nOps; i++ {
		if !quiet() {
			return fmt.Errorf("harness: the controller keeps syncing without any change")
		}
		p := parents[c.Int(2)]
		other := "p1"
		if p == "p1" {
			other = "p2"
		}
		ops := []string{"child-edited", "child-deleted", "parent-edited", "parent-annotated"}
		if len(parents) == 2 {
			ops = append(ops, "parent-created")
		}
		op := ops[c.Int(len(ops))]
		since := time.Now()
		woken := p
		childEvent := false
		switch op {
		case "child-edited":
			env.W.Sim.ExtUpdate(child, "ns1", p+"-c", func(o map[string]any) {
				o[field].(map[string]any)["v"] = fmt.Sprintf("drift%d", i)
			})
			childEvent = true
		case "child-deleted":
			env.W.Sim.ExtDelete(child, "ns1", p+"-c", "")
			childEvent = true
		case "parent-edited":
			env.W.Sim.ExtUpdate("things", "ns1", p, func(o map[string]any) {
				o["spec"].(map[string]any)["v"] = fmt.Sprintf("b%d", i)
			})
		case "parent-annotated":
			env.W.Sim.ExtUpdate("things", "ns1", p, func(o map[string]any) {
				m := o["metadata"].(map[string]any)
				m["annotations"] = map[string]any{"note": fmt.Sprint(i)}
			})
		case "parent-created":
			woken = "p3"
			mkParent("p3")
			parents = append(parents, "p3")
		}
		what := fmt.Sprintf("%s %s", op, woken)
		log = append(log, what)
		c.NonTrivial()
		c.Class("live-%s", op)
		if !pollFor(5*time.Second, func() bool { n, _ := env.Router.callsAboutSince(prefix, woken, since); return n > 0 }) {
			return vs.Violf("C14/parent-not-enqueued", "live controller (%s, children %s): after %q the sync hook was not called for parent ns1/%s within 5 s", kind, child, what, woken)
		}
		if !pollFor(5*time.Second, converged) {
			return vs.Violf("C01/field-not-converged", "live controller (%s): 5 s after %q the children do not carry what the hook asks for", kind, what)
		}
		if childEvent {
			// the repair of p's child produces further events about p only
			time.Sleep(60 * time.Millisecond)
			if n, _ := env.Router.callsAboutSince(prefix, other, since); n > 0 {
				return vs.Violf("C14/wrong-parent-enqueued", "live controller (%s): %q concerns the child of ns1/%s only, yet the sync hook was called %d time(s) for ns1/%s", kind, what, p, n, other)
			}
		}
	}
	// A second controller for the same parent resource starts while the first one runs: its handlers are added to
	// informers that are already warm, so all it gets for the existing parents is the replay of the cache (the same
	// object as old and new). It must sync them all the same - with ignoreStatusChanges too: a replay is not a
	// status change.
	if c.Bool() {
		if !quiet() {
			return fmt.Errorf("harness: the controller keeps syncing without any change")
		}
		other := "configmaps"
		if child == "configmaps" {
			other = "widgets"
		}
		spec2 := c20Spec{Version: 2, Variant: "plain", Parent: "things", Child: other, Valid: true}
		if kind == "composite" {
			obj := spec2.CompositeObj("live2", nil)
			obj.SetGeneration(1)
			if ignoreStatus {
				obj.Spec.ParentResource.IgnoreStatusChanges = &ignoreStatus
			}
			if err := env.K8s.Create(ctx, obj); err != nil {
				return fmt.Errorf("harness: %v", err)
			}
		} else {
			obj := spec2.DecoratorObj("live2", nil)
			obj.SetGeneration(1)
			if ignoreStatus {
				obj.Spec.Resources[0].IgnoreStatusChanges = &ignoreStatus
			}
			if err := env.K8s.Create(ctx, obj); err != nil {
				return fmt.Errorf("harness: %v", err)
			}
		}
		since := time.Now()
		if err := drv.Reconcile("live2"); err != nil {
			return fmt.Errorf("harness: reconcile live2: %v", err)
		}
		defer func() {
			if kind == "composite" {
				_ = env.K8s.Delete(ctx, &v1alpha1.CompositeController{ObjectMeta: metav1.ObjectMeta{Name: "live2"}})
			} else {
				_ = env.K8s.Delete(ctx, &v1alpha1.DecoratorController{ObjectMeta: metav1.ObjectMeta{Name: "live2"}})
			}
			func() {
				defer func() { _ = recover() }()
				_ = drv.Reconcile("live2")
			}()
		}()
		log = append(log, "second controller started on the warm informers")
		c.Class("second-controller-on-warm-informers")
		prefix2 := spec2.urlPrefix("live2") + "sync"
		for _, p := range parents {
			if env.W.Sim.Get("things", "ns1", p) == nil {
				continue
			}
			pp := p
			if !pollFor(10*time.Second, func() bool { n, _ := env.Router.callsAboutSince(prefix2, pp, since); return n > 0 }) {
				return vs.Violf("C20/running-controller-deaf", "a second %s controller (ignoreStatusChanges=%v) was started for a parent resource whose informer is already running; 10 s later it has not synced the existing parent ns1/%s", kind, ignoreStatus, pp)
			}
		}
	}
	if finalize {
		// C10 on the same path: deleting a parent that carries the controller's finalizer wakes it (C14: "or still
		// carries its finalizer"), the finalize hook is asked, its children go and the parent is let go
		if !quiet() {
			return fmt.Errorf("harness: the controller keeps syncing without any change")
		}
		if fs, _ := getPath(env.W.Sim.Get("things", "ns1", "p2"), "metadata.finalizers"); fs == nil {
			return vs.Violf("C10/finalizer-missing", "live controller (%s) with a finalize hook: parent ns1/p2 has been synced but carries no finalizer", kind)
		}
		since := time.Now()
		env.W.Sim.ExtDelete("things", "ns1", "p2", "")
		log = append(log, "parent-deleted p2")
		c.Class("live-parent-deleted")
		fprefix := spec.urlPrefix("live") + "finalize"
		if !pollFor(5*time.Second, func() bool { n, _ := env.Router.callsAboutSince(fprefix, "p2", since); return n > 0 }) {
			return vs.Violf("C14/parent-not-enqueued", "live controller (%s): parent ns1/p2 carries the controller's finalizer and was deleted, but the finalize hook was not called within 5 s", kind)
		}
		if !pollFor(5*time.Second, func() bool {
			return env.W.Sim.Get("things", "ns1", "p2") == nil && env.W.Sim.Get(child, "ns1", "p2-c") == nil
		}) {
			return vs.Violf("C10/finalization-not-completed", "live controller (%s): the finalize hook asked for no children and answered finalized once it observed none, yet 5 s later parent ns1/p2 (%v) or its child (%v) still exists", kind, env.W.Sim.Get("things", "ns1", "p2") != nil, env.W.Sim.Get(child, "ns1", "p2-c") != nil)
		}
		if n, _ := env.Router.callsAboutSince(prefix, "p2", since); n > 0 {
			return vs.Violf("C10/wrong-hook", "live controller (%s): the sync hook was called %d time(s) for the deleted parent ns1/p2 although a finalize hook is configured", kind, n)
		}
	}
	return nil
}
