package verifworld

import (
	"fmt"
	"strings"

	vs "metacontroller/pkg/internal/verifsim"
)

func ownerRefs(o map[string]any) []map[string]any {
	if o == nil {
		return nil
	}
	m, _ := o["metadata"].(map[string]any)
	l, _ := m["ownerReferences"].([]any)
	var out []map[string]any
	for _, x := range l {
		if r, ok := x.(map[string]any); ok {
			out = append(out, r)
		}
	}
	return out
}

func hasRefUID(o map[string]any, uid string) bool {
	for _, r := range ownerRefs(o) {
		if r["uid"] == uid {
			return true
		}
	}
	return false
}

// judgeRefRules is the C04 monitor over one sync of one parent.
func judgeRefRules(c *vs.Case, e *Env, t *SyncTrace, cachedParent map[string]any, epoch int) error {
	if cachedParent == nil {
		return nil
	}
	uid := metaStr(cachedParent, "uid")
	cfg := &e.Scn.Cfg
	parentGetOK := false // a live GET of the parent in this sync showed the same UID and no deletionTimestamp
	for _, r := range t.Reqs {
		if r.Epoch != epoch || r.Actor != "controller" {
			continue
		}
		if r.Verb == "get" && r.Def.Resource == cfg.ParentResource && r.Name == metaStr(cachedParent, "name") && r.Code == 200 && r.Post != nil {
			if metaStr(r.Post, "uid") == uid && !IsDeleting(r.Post) {
				parentGetOK = true
			}
			continue
		}
		if !r.Mutating() || !r.Accepted() || r.Def.Resource == cfg.ParentResource || r.Verb == "delete" || r.Pre == nil || r.Post == nil {
			continue
		}
		res := r.Def.Resource
		// (c) references of others survive every write; never two controller references
		for _, ref := range ownerRefs(r.Pre) {
			if ref["uid"] != uid && !hasRefUID(r.Post, ref["uid"].(string)) {
				return vs.Violf("C04/foreign-ownerref-lost", "%s removed the owner reference of %v (uid %v), which is not this parent's", r.String(), ref["name"], ref["uid"])
			}
		}
		if ControllerRefs(r.Post) > 1 {
			return vs.Violf("C04/two-controller-refs", "%s left %d controller references", r.String(), ControllerRefs(r.Post))
		}
		hadOurs, hasOurs := hasRefUID(r.Pre, uid), hasRefUID(r.Post, uid)
		cached := FindIn(t.PreCache[res], r.Pre)
		switch {
		case ControllerOf(r.Pre) != uid && ControllerOf(r.Post) == uid: // adoption (incl. promotion of a plain reference)
			c.Class("adoption:%s", res)
			if cfg.Kind != "composite" {
				return vs.Violf("C04/decorator-adopted", "%s: a decorator adopted an object", r.String())
			}
			if cached == nil || metaStr(cached, "uid") != metaStr(r.Pre, "uid") {
				return vs.Violf("C04/adopted-unobserved", "%s adopted an object that was not the one observed in the cache", r.String())
			}
			lbl := LabelsOf(cached)
			if res == "controllerrevisions" {
				// revisions are selected with two extra labels
				d := e.W.Sim.Def(cfg.ParentResource)
				if lbl["metacontroller.k8s.io/apiGroup"] != d.Group || lbl["metacontroller.k8s.io/resource"] != d.Resource {
					return vs.Violf("C04/adopted-nonmatching", "%s adopted a ControllerRevision of another parent type (labels %v)", r.String(), lbl)
				}
			}
			if !e.selectorMatches(cachedParent, lbl) {
				return vs.Violf("C04/adopted-nonmatching", "%s adopted an orphan whose observed labels %v do not match the parent's selector", r.String(), lbl)
			}
			if IsDeleting(cached) {
				return vs.Violf("C04/adopted-deleting-child", "%s adopted an orphan that was observed with a deletionTimestamp", r.String())
			}
			if IsDeleting(cachedParent) {
				return vs.Violf("C04/deleting-parent-adopted", "%s: a parent observed with a deletionTimestamp adopted an orphan", r.String())
			}
			if !parentGetOK {
				return vs.Violf("C04/adoption-without-fresh-parent-check", "%s adopted an orphan although no uncached read in this sync showed the parent alive with UID %s", r.String(), uid)
			}
			if ControllerOf(r.Pre) != "" {
				return vs.Violf("C04/adopted-controlled-object", "%s added our reference to an object controlled by %s", r.String(), ControllerOf(r.Pre))
			}
		case hadOurs && !hasOurs: // release
			_ = hasOurs
			c.Class("release:%s", res)
			if IsDeleting(cachedParent) {
				return vs.Violf("C04/deleting-parent-released", "%s: a parent observed with a deletionTimestamp released a child", r.String())
			}
			a, b := stripServerFields(r.Pre), stripServerFields(r.Post)
			delete(a["metadata"].(map[string]any), "ownerReferences")
			delete(b["metadata"].(map[string]any), "ownerReferences")
			if !vs.JSONEqual(a, b) {
				return vs.Violf("C04/release-changed-more", "%s changed more than the owner references\npre =%v\npost=%v", r.String(), a, b)
			}
			if len(ownerRefs(r.Post)) != len(ownerRefs(r.Pre))-1 {
				return vs.Violf("C04/release-removed-others", "%s: owner references went from %v to %v", r.String(), ownerRefs(r.Pre), ownerRefs(r.Post))
			}
			if cached != nil && e.selectorMatches(cachedParent, LabelsOf(cached)) && res != "controllerrevisions" {
				return vs.Violf("C04/released-matching-child", "%s released a child whose observed labels %v still match the selector", r.String(), LabelsOf(cached))
			}
		default:
			// (d) a write to an object controlled by someone else
			if ctl := ControllerOf(r.Pre); ctl != "" && ctl != uid && !vs.JSONEqual(stripServerFields(r.Pre), stripServerFields(r.Post)) {
				return vs.Violf("C04/wrote-foreign-owned", "%s wrote an object controlled by %s", r.String(), ctl)
			}
		}
	}
	return nil
}

// PropC04: adoption, release and creation obey the ControllerRef rules.
func PropC04(c *vs.Case, f Factory) error {
	scn := GenScn(c, GenOpts{Kind: "composite", AllowRolling: true, ClusterParent: 1})
	scn.Cfg.SSA = false
	// variants of the selector / label contract
	variant := c.Weighted(6, 2, 1, 1)
	switch variant {
	case 3: // a selector made of negative expressions only: it selects objects without any labels, too
		if !scn.Cfg.GenerateSelector {
			spec := scn.Parent["spec"].(map[string]any)
			spec["selector"] = map[string]any{"matchExpressions": []any{
				map[string]any{"key": "blocked", "operator": "DoesNotExist"},
				map[string]any{"key": "app", "operator": "NotIn", "values": []any{"someone-elses"}},
			}}
			if tpl, ok := spec["template"].(map[string]any); ok {
				delete(tpl, "metadata") // revisions carry no labels either
			}
			scn.SelLabels = map[string]string{}
			for i := range scn.Prog.Children {
				scn.Prog.Children[i].Labels = nil // the hook's children carry no labels at all
			}
			c.Class("negative-only-selector")
		}
	case 1: // a desired child's labels violate the selector
		i := c.Int(len(scn.Prog.Children))
		switch c.Int(3) {
		case 0:
			scn.Prog.Children[i].Labels = map[string]string{"app": "not-" + scn.ParentName()}
		case 1:
			scn.Prog.Children[i].Labels = map[string]string{}
		default:
			// a child that claims to belong to another parent's generated selector
			scn.Prog.Children[i].Labels = map[string]string{"controller-uid": "uid-intruder"}
		}
	case 2: // empty selector on the parent
		if !scn.Cfg.GenerateSelector {
			scn.Parent["spec"].(map[string]any)["selector"] = map[string]any{}
		}
	}
	// a rolling controller whose hook labels the children after the selector of the parent it is shown: once the
	// selector itself is edited, the calls made for older revisions come back with labels the parent no longer selects
	selectorRollout := false
	if variant == 0 && !scn.Cfg.GenerateSelector && len(scn.SelLabels) > 0 {
		for _, ch := range scn.Cfg.Children {
			if strings.HasPrefix(ch.Method, "Rolling") && c.Prob(1, 2) {
				selectorRollout = true
			}
		}
	}
	if selectorRollout {
		for i := range scn.Prog.Children {
			scn.Prog.Children[i].LabelsFromSelector = true
		}
		scn.Cfg.FieldPaths = nil // the default: everything under spec is revisioned, the selector included
		// the revisions are labelled from spec.template.metadata.labels: give those a second label, so that the
		// selector can later move to it without losing the revisions
		if tl, ok := getPath(scn.Parent, "spec.template.metadata.labels"); ok {
			if tm, ok := tl.(map[string]any); ok {
				tm["gen"] = "x"
			}
		}
		c.Class("hook-labels-follow-the-selector-it-is-shown")
	}
	env, err := NewEnv(scn, f)
	if err != nil {
		return fmt.Errorf("harness: %v", err)
	}
	var second map[string]any
	if c.Prob(1, 2) {
		p2 := vs.CopyMap(scn.Parent)
		p2["metadata"].(map[string]any)["name"] = "p2"
		second, _ = env.W.Sim.ExtCreate(scn.Cfg.ParentResource, p2)
	}
	seeds := SeedStore(c, env, SeedOpts{ForeignOnDesiredName: true, Max: 8, Deleting: true})
	var log []string
	c.Describe(func() any {
		return map[string]any{"scenario": scn, "variant": variant, "seeds": seeds, "secondParent": second != nil, "steps": log}
	})
	env.W.SyncAll()
	nontrivial := false
	steps := 2 + c.Int(4)
	for s := 0; s < steps; s++ {
		// environment step on the live parent / revisions, possibly invisible to the cache
		envW := []int{5, 2, 2, 2, 2}
		if selectorRollout {
			envW = append(envW, 3)
		}
		switch c.Weighted(envW...) {
		case 5: // the parent's selector is edited in place (a revisioned field like any other under spec)
			env.W.Sim.ExtUpdate(scn.Cfg.ParentResource, scn.ParentNS(), scn.ParentName(), func(o map[string]any) {
				// the selector moves from the hook-facing label to the other label the template carries, or back:
				// the revisions (labelled from the template) match both, the children follow the selector in force
				sel, _ := o["spec"].(map[string]any)["selector"].(map[string]any)
				if sel == nil {
					return
				}
				ml, _ := sel["matchLabels"].(map[string]any)
				if _, onGen := ml["gen"]; onGen {
					nl := map[string]any{}
					for k, v := range scn.SelLabels {
						nl[k] = v
					}
					sel["matchLabels"] = nl
				} else {
					sel["matchLabels"] = map[string]any{"gen": "x"}
				}
			})
			log = append(log, "parent selector edited in place")
			c.Class("env:parent-selector-edited")
			if owned := env.OwnedChildren(); len(owned) > 0 && c.Bool() {
				// ... and one of the children is gone: whoever still wants it has to create it anew
				o := owned[c.Int(len(owned))]
				d := env.W.Sim.DefByKind(o["apiVersion"].(string), o["kind"].(string))
				env.W.Sim.ExtDelete(d.Resource, metaStr(o, "namespace"), metaStr(o, "name"), "")
				log = append(log, "... and "+ObjID(o)+" deleted by someone")
				c.Class("env:child-deleted-after-selector-edit")
			}
		case 4: // an owned child is relabelled so that it no longer matches: it has to be released
			owned := env.OwnedChildren()
			if len(owned) > 0 {
				o := owned[c.Int(len(owned))]
				d := env.W.Sim.DefByKind(o["apiVersion"].(string), o["kind"].(string))
				env.W.Sim.ExtUpdate(d.Resource, metaStr(o, "namespace"), metaStr(o, "name"), func(obj map[string]any) {
					metaOfMap(obj)["labels"] = map[string]any{"app": "relabelled"}
				})
				log = append(log, "relabelled "+ObjID(o))
				c.Class("env:owned-child-relabelled")
			}
		case 1: // live parent starts deleting (held by a foreign finalizer)
			env.W.Sim.ExtUpdate(scn.Cfg.ParentResource, scn.ParentNS(), scn.ParentName(), func(o map[string]any) {
				m := o["metadata"].(map[string]any)
				fs, _ := m["finalizers"].([]any)
				m["finalizers"] = append(fs, "example.com/hold")
			})
			env.W.Sim.ExtDelete(scn.Cfg.ParentResource, scn.ParentNS(), scn.ParentName(), "")
			log = append(log, "live parent now deleting")
			c.Class("env:parent-deleting")
		case 2: // live parent replaced by a new object with the same name
			env.W.Sim.Purge(scn.Cfg.ParentResource, scn.ParentNS(), scn.ParentName())
			if !scn.Cfg.GenerateSelector && c.Bool() {
				// the new object of that name selects other children (and its hook labels them accordingly)
				cur := scn.SelLabels["app"]
				next := cur + "-b"
				if strings.HasSuffix(cur, "-b") {
					next = strings.TrimSuffix(cur, "-b")
				}
				scn.SelLabels["app"] = next
				for i := range scn.Prog.Children {
					if scn.Prog.Children[i].Labels != nil {
						scn.Prog.Children[i].Labels["app"] = next
					}
				}
				scn.Prog.Install(env.W, scn.Cfg.Kind)
				spec := scn.Parent["spec"].(map[string]any)
				if sel, ok := spec["selector"].(map[string]any); ok {
					if ml, ok := sel["matchLabels"].(map[string]any); ok {
						ml["app"] = next
					}
				}
				if tl, ok := getPath(scn.Parent, "spec.template.metadata.labels"); ok {
					if tm, ok := tl.(map[string]any); ok {
						tm["app"] = next
					}
				}
				c.Class("env:parent-replaced-with-other-selector")
			}
			np, _ := env.W.Sim.ExtCreate(scn.Cfg.ParentResource, scn.Parent)
			log = append(log, "live parent replaced, new uid "+metaStr(np, "uid"))
			c.Class("env:parent-replaced")
		case 3: // orphan a ControllerRevision or a child
			objs := append(env.childObjects(), env.W.Sim.ListAll("controllerrevisions")...)
			if len(objs) > 0 {
				o := objs[c.Int(len(objs))]
				d := env.W.Sim.DefByKind(o["apiVersion"].(string), o["kind"].(string))
				env.W.Sim.ExtUpdate(d.Resource, metaStr(o, "namespace"), metaStr(o, "name"), func(obj map[string]any) {
					delete(obj["metadata"].(map[string]any), "ownerReferences")
				})
				log = append(log, "orphaned "+ObjID(o))
				c.Class("env:orphaned-%s", d.Resource)
				if c.Prob(1, 3) {
					// ... and it is on its way out (held by someone's finalizer): not to be adopted, child or revision
					env.W.Sim.ExtUpdate(d.Resource, metaStr(o, "namespace"), metaStr(o, "name"), func(obj map[string]any) {
						obj["metadata"].(map[string]any)["finalizers"] = []any{"example.com/hold"}
					})
					env.W.Sim.ExtDelete(d.Resource, metaStr(o, "namespace"), metaStr(o, "name"), "")
					log = append(log, "... and deleted (held by a finalizer)")
					c.Class("env:orphan-terminating-%s", d.Resource)
				}
			}
		}
		staleParent := false
		for _, r := range env.W.ResourceNames() {
			if c.Prob(2, 3) {
				env.W.SyncCache(r)
			} else if r == scn.Cfg.ParentResource {
				staleParent = true
			}
		}
		who := scn.Parent
		if second != nil && c.Prob(1, 4) {
			who = second
		}
		cachedU := env.W.CachedObject(scn.Cfg.ParentResource, metaStr(who, "namespace"), metaStr(who, "name"))
		var cachedParent map[string]any
		if cachedU != nil {
			cachedParent = vs.CopyMap(cachedU.Object)
			live := env.W.Sim.Get(scn.Cfg.ParentResource, metaStr(who, "namespace"), metaStr(who, "name"))
			if staleParent && (live == nil || metaStr(live, "uid") != metaStr(cachedParent, "uid") || IsDeleting(live) != IsDeleting(cachedParent)) {
				nontrivial = true
				c.Class("stale-parent-view")
			}
		}
		// nested sync of the other parent before a chosen request (adoption race)
		var nestedTraces []*SyncTrace
		var nestedParents []map[string]any
		at := -1
		if second != nil && c.Prob(1, 2) {
			at = c.Int(6)
		}
		// someone else becomes a co-owner of the object a request is about, right before that request
		coOwnerAt := -1
		if c.Prob(1, 3) {
			coOwnerAt = c.Int(10)
		}
		recheckFault := c.Prob(1, 5)
		count := 0
		inNested := false
		env.W.Sim.Before = func(r *vs.Request) *vs.Fault {
			if inNested {
				return nil
			}
			idx := count
			count++
			if recheckFault && r.Verb == "get" && r.Def.Resource == scn.Cfg.ParentResource {
				// the uncached re-read of the parent before an adoption is answered 503
				c.Class("parent-recheck-answered-503")
				return &vs.Fault{Code: 503, Reason: "ServiceUnavailable", Message: "injected"}
			}
			if idx == coOwnerAt && r.Name != "" && r.Def.Resource != scn.Cfg.ParentResource && (r.Verb == "get" || r.Verb == "update") {
				ns := r.Namespace
				if _, err := env.W.Sim.ExtUpdate(r.Def.Resource, ns, r.Name, func(obj map[string]any) {
					m := metaOfMap(obj)
					refs, _ := m["ownerReferences"].([]any)
					m["ownerReferences"] = append(refs, map[string]any{"apiVersion": "v1", "kind": "ConfigMap", "name": "co-owner", "uid": "uid-co-owner"})
				}); err == nil {
					log = append(log, fmt.Sprintf("co-owner reference added to %s %s/%s before request #%d", r.Def.Resource, ns, r.Name, idx))
					c.Class("co-owner-added-mid-sync")
				}
			}
			if idx == at {
				inNested = true
				save := env.W.Sim.Epoch
				other := second
				if metaStr(who, "name") == "p2" {
					other = scn.Parent
				}
				cu := env.W.CachedObject(scn.Cfg.ParentResource, metaStr(other, "namespace"), metaStr(other, "name"))
				if cu != nil {
					cp := vs.CopyMap(cu.Object)
					nt := env.syncOf(other)
					nestedTraces = append(nestedTraces, nt)
					nestedParents = append(nestedParents, cp)
					nontrivial = true
				}
				env.W.Sim.Epoch = save
				env.W.Hooks.Epoch = save
				inNested = false
			}
			return nil
		}
		t := env.syncOf(who)
		env.W.Sim.Before = nil
		log = append(log, fmt.Sprintf("sync %s (%d requests, err=%v)", metaStr(who, "name"), len(t.Reqs), t.Err))
		if t.Panic != "" {
			return vs.Violf("C04/panic", "panic: %s", t.Panic)
		}
		if err := judgeRefRules(c, env, t, cachedParent, t.N); err != nil {
			return withTrace(err, t)
		}
		// the obligation side of "an owned child that stops matching is released": a sync that succeeded, of a live
		// parent whose cache was current, leaves no child that it observed as owned-but-not-matching under its control
		if scn.Cfg.Kind == "composite" && t.Err == nil && !staleParent && cachedParent != nil && !IsDeleting(cachedParent) && len(nestedTraces) == 0 {
			puid := metaStr(cachedParent, "uid")
			if lp := env.W.Sim.Get(scn.Cfg.ParentResource, metaStr(cachedParent, "namespace"), metaStr(cachedParent, "name")); lp != nil && metaStr(lp, "uid") == puid && !IsDeleting(lp) {
				for _, res := range env.ChildResources() {
					for _, o := range t.PreCache[res] {
						if ControllerOf(o) != puid || env.selectorMatches(cachedParent, LabelsOf(o)) {
							continue
						}
						if pns := metaStr(cachedParent, "namespace"); pns != "" && metaStr(o, "namespace") != pns {
							continue // outside a namespaced parent's reach (it never sees, let alone releases, such an object)
						}
						live := env.W.Sim.Get(res, metaStr(o, "namespace"), metaStr(o, "name"))
						if live == nil || metaStr(live, "uid") != metaStr(o, "uid") || env.selectorMatches(cachedParent, LabelsOf(live)) {
							continue
						}
						c.Class("owned-child-stopped-matching")
						if ControllerOf(live) == puid {
							return withTrace(vs.Violf("C04/nonmatching-child-not-released", "%s is controlled by the parent (uid %s) but its labels %v do not match the parent's selector, in the cache and on the server alike; the sync succeeded and the parent still controls it", ObjID(o), puid, LabelsOf(live)), t)
						}
					}
				}
			}
		}
		for i, nt := range nestedTraces {
			if nt.Panic != "" {
				return vs.Violf("C04/panic", "panic: %s", nt.Panic)
			}
			if err := judgeRefRules(c, env, nt, nestedParents[i], nt.N); err != nil {
				return withTrace(err, nt)
			}
		}
		for _, o := range append(env.childObjects(), env.W.Sim.ListAll("controllerrevisions")...) {
			if ControllerRefs(o) > 1 {
				return vs.Violf("C04/two-controller-refs", "%s has %d controller references", ObjID(o), ControllerRefs(o))
			}
		}
		// (e)/(f): label contract of desired children, judged on syncs of the primary parent that reached the hook
		if metaStr(who, "name") == scn.ParentName() && cachedParent != nil {
			hookCalled := false
			for _, h := range t.Hooks {
				if h.URL != CustomizeURL && h.Epoch == t.N {
					hookCalled = true
				}
			}
			violating := false
			for _, h := range t.Hooks {
				if h.URL == CustomizeURL || h.Epoch != t.N {
					continue
				}
				resp, _ := vs.DecodeJSON(h.Response.Body)
				kids, _ := resp["children"].([]any)
				for _, k := range kids {
					km, ok := k.(map[string]any)
					if !ok {
						continue
					}
					if scn.Cfg.GenerateSelector {
						// the controller-uid label is injected when absent; a present, foreign value must be refused
						if v, has := LabelsOf(km)["controller-uid"]; has && v != metaStr(cachedParent, "uid") {
							violating = true
						}
					} else if !env.selectorMatches(cachedParent, LabelsOf(km)) {
						violating = true
					}
				}
			}
			contentWrites := 0
			for _, r := range t.Reqs {
				if r.Epoch != t.N || !r.Mutating() || r.Def.Resource == scn.Cfg.ParentResource || r.Def.Resource == "controllerrevisions" {
					continue
				}
				if r.Verb == "update" && r.Pre != nil && r.Post != nil {
					a, b := stripServerFields(r.Pre), stripServerFields(r.Post)
					delete(a["metadata"].(map[string]any), "ownerReferences")
					delete(b["metadata"].(map[string]any), "ownerReferences")
					if vs.JSONEqual(a, b) {
						continue // adoption / release edit, happens before the hook is consulted
					}
				}
				if r.Verb == "update" && !r.Accepted() && r.Body != nil {
					// a refused adoption / release edit (the object changed or vanished meanwhile): judged by what was sent
					// (what was sent is the object just read - a read-modify-write - or, failing that, the cached one)
					basis := FindIn(t.PreCache[r.Def.Resource], r.Body)
					for _, g := range t.Reqs {
						if g == r {
							break
						}
						if g.Verb == "get" && g.Def.Resource == r.Def.Resource && g.Name == r.Name && g.Namespace == r.Namespace && g.Code == 200 && g.Post != nil {
							basis = g.Post
						}
					}
					if cached := basis; cached != nil {
						a, b := stripServerFields(cached), stripServerFields(r.Body)
						delete(a["metadata"].(map[string]any), "ownerReferences")
						delete(b["metadata"].(map[string]any), "ownerReferences")
						if vs.JSONEqual(a, b) {
							continue
						}
					}
				}
				contentWrites++
			}
			// the last sentence of C04, on what actually happened: no child is born with labels that the selector of the
			// parent the sync worked on (its cached copy) does not satisfy - it would be orphaned by the next sync
			if !scn.Cfg.GenerateSelector && variant != 2 {
				for _, r := range t.Reqs {
					if r.Epoch != t.N || r.Verb != "create" || !r.Accepted() || r.Post == nil || r.Def.Resource == "controllerrevisions" || r.Def.Resource == scn.Cfg.ParentResource {
						continue
					}
					if !env.selectorMatches(cachedParent, LabelsOf(r.Post)) {
						return withTrace(vs.Violf("C04/child-created-nonmatching", "%s created a child with labels %v, which the selector of the parent it was created for does not satisfy (the next sync would orphan it)", r.String(), LabelsOf(r.Post)), t)
					}
				}
			}
			switch {
			case variant == 2 && !scn.Cfg.GenerateSelector:
				c.Class("empty-selector")
				if t.Err == nil {
					return withTrace(vs.Violf("C04/empty-selector-accepted", "a parent with an empty .spec.selector was synced without error"), t)
				}
				if contentWrites > 0 || hookCalled {
					return withTrace(vs.Violf("C04/empty-selector-acted", "a parent with an empty selector caused %d child writes / hook call %v", contentWrites, hookCalled), t)
				}
			case variant == 1 && hookCalled && violating:
				c.Class("desired-labels-violate-selector")
				nontrivial = true
				if t.Err == nil {
					return withTrace(vs.Violf("C04/nonmatching-desired-child-accepted", "the hook returned a child whose labels do not satisfy the selector, but the sync reported no error"), t)
				}
				if contentWrites > 0 {
					return withTrace(vs.Violf("C04/write-despite-nonmatching-desired-child", "the hook returned a child whose labels do not satisfy the selector, yet %d child writes were issued in that sync", contentWrites), t)
				}
			case variant == 1 && hookCalled && scn.Cfg.GenerateSelector:
				c.Class("generated-selector-label-injected")
				for _, r := range t.Reqs {
					if r.Epoch == t.N && r.Verb == "create" && r.Accepted() && r.Def.Resource != "controllerrevisions" && LabelsOf(r.Post)["controller-uid"] != metaStr(cachedParent, "uid") {
						return withTrace(vs.Violf("C04/controller-uid-label-missing", "%s: child created under generateSelector without the controller-uid label (labels %v)", r.String(), LabelsOf(r.Post)), t)
					}
				}
			}
		}
	}
	if nontrivial {
		c.NonTrivial()
	}
	if v := env.SharedStateViolation(); v != nil {
		return v
	}
	return nil
}
