package verifworld

import (
	"fmt"
	"strings"

	vs "metacontroller/pkg/internal/verifsim"
)

// IntOp is one outside-writer operation interposed before a controller request.
type IntOp struct {
	At   int    `json:"at"`   // index (0-based) of the controller request in its sync
	Op   string `json:"op"`   // delete | recreate-unowned | recreate-foreign | transfer | relabel | second-parent-sync
	Pick int    `json:"pick"` // which object (index into the sorted list of child objects)
	Done string `json:"done,omitempty"`
}

// judgeWrites is the C02 monitor: every accepted mutating request on a
// non-parent object is judged against the store's pre-state.
func judgeWrites(c *vs.Case, e *Env, t *SyncTrace, parent map[string]any, epoch int) error {
	uid := metaStr(parent, "uid")
	cfg := &e.Scn.Cfg
	controlled := func(o map[string]any) bool {
		if o == nil || ControllerOf(o) != uid {
			return false
		}
		return true
	}
	// objects this sync itself made the parent's (adoption edits, creations) before touching them again
	ownedDuringSync := map[string]bool{}
	// ... and objects this sync itself released: they are nobody's business any more
	releasedBySync := map[string]string{}
	for _, r := range t.Reqs {
		if r.Epoch != epoch || !r.Mutating() || !r.Accepted() || r.Actor != "controller" {
			continue
		}
		if r.Post != nil && r.Verb != "delete" && controlled(r.Post) {
			ownedDuringSync[r.Def.Resource+"|"+ObjID(r.Post)] = true
		}
		if r.Pre != nil && r.Post != nil && r.Verb != "delete" && controlled(r.Pre) && !controlled(r.Post) {
			releasedBySync[r.Def.Resource+"|"+ObjID(r.Post)] = r.String()
		}
		res := r.Def.Resource
		if res == cfg.ParentResource {
			continue
		}
		desc := r.String()
		switch {
		case r.Verb == "delete":
			pre, _ := r.Body["preconditions"].(map[string]any)
			puid, _ := pre["uid"].(string)
			if puid == "" {
				return vs.Violf("C02/delete-without-uid-precondition", "%s accepted without a UID precondition (options %v)", desc, r.Body)
			}
			// the precondition must be the UID that the sync observed in its cache
			cached := FindIn(t.PreCache[res], r.Pre)
			if cached == nil || metaStr(cached, "uid") != puid {
				return vs.Violf("C02/delete-uid-not-observed", "%s: UID precondition %s is not the UID of the object observed in the cache (%v)", desc, puid, cached != nil)
			}
			if rel, ok := releasedBySync[res+"|"+ObjID(r.Pre)]; ok && !controlled(r.Pre) {
				return vs.Violf("C02/delete-after-own-release", "%s deleted an object that this very sync had released before (%s)", desc, rel)
			}
			if !controlled(r.Pre) && !controlled(cached) && !ownedDuringSync[res+"|"+ObjID(r.Pre)] {
				// not even the observed object was the parent's: nothing was "transferred" here
				return vs.Violf("C02/delete-of-object-never-controlled", "%s deleted an object that the parent (uid %s) controls neither on the server nor in the cache it acted on: live ownerReferences=%v cached ownerReferences=%v", desc, uid, metaOfMap(vs.CopyMap(r.Pre))["ownerReferences"], metaOfMap(vs.CopyMap(cached))["ownerReferences"])
			}
			if !controlled(r.Pre) {
				v := vs.Violf("C02/delete-after-ownership-transfer", "%s deleted an object that the parent (uid %s) does not control at that moment: ownerReferences=%v", desc, uid, metaOfMap(vs.CopyMap(r.Pre))["ownerReferences"])
				if e := c.Known(v); e != nil {
					return e
				}
				continue
			}
			if cfg.Kind == "decorator" && AnnotationsOf(r.Pre)["metacontroller.k8s.io/decorator-controller"] != cfg.Name {
				return vs.Violf("C02/delete-unmarked-attachment", "%s deleted an attachment without this decorator's marker", desc)
			}
		case r.Pre == nil: // creation (POST or creating apply)
			if r.Post == nil {
				continue
			}
			if ControllerRefs(r.Post) != 1 || ControllerOf(r.Post) != uid {
				v := vs.Violf("C02/child-born-without-controller-ref", "%s created an object whose ownerReferences are %v, want exactly one controller reference to %s", desc, metaOfMap(vs.CopyMap(r.Post))["ownerReferences"], uid)
				if cfg.SSA && res != "controllerrevisions" {
					v.Sig = "C02/ssa-child-born-unowned"
					if e := c.Known(v); e != nil {
						return e
					}
					continue
				}
				return v
			}
		default: // update / patch of an existing object
			if vs.JSONEqual(stripServerFields(r.Pre), stripServerFields(r.Post)) {
				// accepted but changed nothing (e.g. releasing an object that is already released)
				continue
			}
			if controlled(r.Pre) {
				if cfg.Kind == "decorator" && AnnotationsOf(r.Pre)["metacontroller.k8s.io/decorator-controller"] != cfg.Name {
					return vs.Violf("C02/write-to-unmarked-attachment", "%s wrote an attachment that lacks this decorator's marker", desc)
				}
				continue
			}
			if rel, ok := releasedBySync[res+"|"+ObjID(r.Pre)]; ok && !(cfg.SSA && r.Verb == "patch") {
				return vs.Violf("C02/write-after-own-release", "%s wrote an object that this very sync had released before (%s)", desc, rel)
			}
			// the only other legal write: the adoption edit of a matching orphan
			if pns := metaStr(parent, "namespace"); pns != "" && metaStr(r.Pre, "namespace") != pns && isAdoptionEdit(r.Pre, r.Post, uid) {
				// an owner reference cannot point across namespaces (the garbage collector treats such an owner as
				// absent): a namespaced parent has nothing to adopt outside its own namespace, look-alike or not
				return vs.Violf("C02/adoption-outside-parent-namespace", "%s made the namespaced parent %s/%s (uid %s) the controller of an object outside its namespace (object namespace %q, labels %v)", desc, pns, metaStr(parent, "name"), uid, metaStr(r.Pre, "namespace"), LabelsOf(r.Pre))
			}
			if cfg.Kind == "composite" && ControllerRefs(r.Pre) == 0 && isAdoptionEdit(r.Pre, r.Post, uid) {
				// the adoption decision is taken on the observed (cached) object, like every
				// ControllerRefManager; the live one may have been relabelled since
				cached := FindIn(t.PreCache[res], r.Pre)
				// ... and with the selector of the parent as the sync observed it (its cache may lag behind an edit)
				selParents := []map[string]any{parent}
				if cp := FindIn(t.PreCache[cfg.ParentResource], parent); cp != nil && metaStr(cp, "uid") == uid {
					selParents = append(selParents, cp)
				}
				ok := false
				for _, sp := range selParents {
					if e.selectorMatches(sp, LabelsOf(r.Pre)) || (cached != nil && metaStr(cached, "uid") == metaStr(r.Pre, "uid") && e.selectorMatches(sp, LabelsOf(cached))) {
						ok = true
					}
				}
				if ok {
					c.Class("adoption-edit")
					continue
				}
			}
			v := vs.Violf("C02/write-to-uncontrolled", "%s wrote an object the parent (uid %s) does not control: pre ownerReferences=%v labels=%v\npre =%v\npost=%v", desc, uid, metaOfMap(vs.CopyMap(r.Pre))["ownerReferences"], LabelsOf(r.Pre), stripServerFields(r.Pre), stripServerFields(r.Post))
			if cfg.SSA && r.Verb == "patch" {
				v.Sig = "C02/ssa-patch-on-uncontrolled-object"
				if e := c.Known(v); e != nil {
					return e
				}
				continue
			}
			return v
		}
	}
	return nil
}

// isAdoptionEdit: post differs from pre only by the added controller reference
// to uid (plus server-maintained fields).
func isAdoptionEdit(pre, post map[string]any, uid string) bool {
	if post == nil || ControllerOf(post) != uid {
		return false
	}
	a, b := vs.CopyMap(pre), vs.CopyMap(post)
	for _, o := range []map[string]any{a, b} {
		m := o["metadata"].(map[string]any)
		delete(m, "resourceVersion")
		delete(m, "managedFields")
		delete(m, "ownerReferences")
	}
	if !vs.JSONEqual(a, b) {
		return false
	}
	// references of others must survive; ours is added (or promoted from a plain reference)
	preRefs, _ := pre["metadata"].(map[string]any)["ownerReferences"].([]any)
	postRefs, _ := post["metadata"].(map[string]any)["ownerReferences"].([]any)
	others := 0
	for _, pr := range preRefs {
		if prm, _ := pr.(map[string]any); prm["uid"] == uid {
			continue
		}
		others++
		found := false
		for _, qr := range postRefs {
			if vs.JSONEqual(pr, qr) {
				found = true
			}
		}
		if !found {
			return false
		}
	}
	return len(postRefs) == others+1
}

// selectorMatches evaluates the parent's child selector independently.
func (e *Env) selectorMatches(parent map[string]any, lbl map[string]string) bool {
	if e.Scn.Cfg.GenerateSelector {
		return lbl["controller-uid"] == metaStr(parent, "uid")
	}
	sel, _ := getPath(parent, "spec.selector")
	sm, _ := sel.(map[string]any)
	ml, _ := sm["matchLabels"].(map[string]any)
	for k, v := range ml {
		if lbl[k] != fmt.Sprint(v) {
			return false
		}
	}
	mes, _ := sm["matchExpressions"].([]any)
	for _, x := range mes {
		me, _ := x.(map[string]any)
		key, _ := me["key"].(string)
		op, _ := me["operator"].(string)
		vals, _ := me["values"].([]any)
		val, has := lbl[key]
		in := false
		for _, v := range vals {
			if fmt.Sprint(v) == val {
				in = true
			}
		}
		switch op {
		case "In":
			if !has || !in {
				return false
			}
		case "NotIn":
			if has && in {
				return false
			}
		case "Exists":
			if !has {
				return false
			}
		case "DoesNotExist":
			if has {
				return false
			}
		}
	}
	return len(ml)+len(mes) > 0
}

// childObjects lists all objects of the declared child resources, sorted.
func (e *Env) childObjects() []map[string]any {
	var out []map[string]any
	for _, r := range e.ChildResources() {
		out = append(out, e.W.Sim.ListAll(r)...)
	}
	return out
}

// applyIntOp runs one outside-writer operation; returns a description.
func (e *Env) applyIntOp(op *IntOp, second map[string]any, nested func()) string {
	objs := e.childObjects()
	if op.Op == "second-parent-sync" {
		if nested != nil {
			nested()
			return "second parent synced"
		}
		return "skipped"
	}
	if len(objs) == 0 {
		return "no object"
	}
	o := objs[op.Pick%len(objs)]
	d := e.W.Sim.DefByKind(o["apiVersion"].(string), o["kind"].(string))
	ns, name := metaStr(o, "namespace"), metaStr(o, "name")
	switch op.Op {
	case "delete":
		e.W.Sim.Purge(d.Resource, ns, name)
	case "recreate-unowned", "recreate-foreign", "recreate-nonmatching":
		e.W.Sim.Purge(d.Resource, ns, name)
		n := vs.CopyMap(o)
		m := n["metadata"].(map[string]any)
		for _, k := range []string{"uid", "resourceVersion", "creationTimestamp", "generation", "managedFields", "deletionTimestamp", "deletionGracePeriodSeconds", "finalizers"} {
			delete(m, k)
		}
		delete(m, "ownerReferences")
		if op.Op == "recreate-nonmatching" {
			m["labels"] = map[string]any{"app": "someone-elses"}
		}
		if op.Op == "recreate-foreign" {
			m["ownerReferences"] = []any{map[string]any{"apiVersion": "ex.io/v1", "kind": "Thing", "name": "other-parent", "uid": "uid-foreign", "controller": true}}
		}
		e.W.Sim.ExtCreate(d.Resource, n)
	case "transfer":
		// hand the controller reference to the second parent (same object, same UID)
		e.W.Sim.ExtUpdate(d.Resource, ns, name, func(obj map[string]any) {
			m := obj["metadata"].(map[string]any)
			if second != nil {
				m["ownerReferences"] = []any{OwnerRefTo(second, true)}
			} else {
				m["ownerReferences"] = []any{map[string]any{"apiVersion": "ex.io/v1", "kind": "Thing", "name": "other-parent", "uid": "uid-foreign", "controller": true}}
			}
		})
	case "relabel":
		e.W.Sim.ExtUpdate(d.Resource, ns, name, func(obj map[string]any) {
			m := metaOfMap(obj)
			m["labels"] = map[string]any{"app": "relabelled"}
		})
	case "orphan":
		e.W.Sim.ExtUpdate(d.Resource, ns, name, func(obj map[string]any) {
			delete(obj["metadata"].(map[string]any), "ownerReferences")
		})
	}
	return op.Op + " " + ObjID(o)
}

var intOps = []string{"delete", "recreate-unowned", "recreate-foreign", "transfer", "relabel", "orphan", "second-parent-sync", "recreate-nonmatching"}

// PropC02: only objects the parent controls are ever modified or deleted.
func PropC02(c *vs.Case, f Factory, kind string) error {
	scn := GenScn(c, GenOpts{Kind: kind, AllowRolling: true, AllowSSA: true, AllowFinalize: false})
	// hooks that put owner references of their own on a desired child (a plain owner, or - wrongly - a controller)
	for i := range scn.Prog.Children {
		switch c.Weighted(8, 1, 1) {
		case 1:
			scn.Prog.Children[i].OwnerRefs = []map[string]any{{"apiVersion": "v1", "kind": "ConfigMap", "name": "co-owner", "uid": "uid-co-owner"}}
			c.Class("desired-carries-plain-owner")
		case 2:
			scn.Prog.Children[i].OwnerRefs = []map[string]any{{"apiVersion": "ex.io/v1", "kind": "Thing", "name": "someone", "uid": "uid-foreign", "controller": true, "blockOwnerDeletion": true}}
			c.Class("desired-carries-foreign-controller")
		}
	}
	if kind == "composite" && scn.ParentNS() != "" && scn.Cfg.ChildCfgOf("cwidgets") == nil && c.Prob(1, 6) {
		// a namespaced parent whose controller also declares a cluster-scoped child kind (the hook never asks for
		// one): cluster-scoped look-alikes are outside the parent's namespace like any object of another namespace
		scn.Cfg.Children = append(scn.Cfg.Children, ChildCfg{Resource: "cwidgets", Method: "InPlace"})
		c.Class("namespaced-parent-declares-cluster-scoped-kind")
	}
	env, err := NewEnv(scn, f)
	if err != nil {
		return fmt.Errorf("harness: %v", err)
	}
	// a second parent with an overlapping selector
	var second map[string]any
	if c.Prob(2, 3) {
		p2 := vs.CopyMap(scn.Parent)
		p2["metadata"].(map[string]any)["name"] = "p2"
		second, _ = env.W.Sim.ExtCreate(scn.Cfg.ParentResource, p2)
	}
	seeds := SeedStore(c, env, SeedOpts{ForeignOnDesiredName: true, Max: 8})
	var log []string
	c.Describe(func() any {
		return map[string]any{"scenario": scn, "seeds": seeds, "secondParent": second != nil, "steps": log}
	})
	env.W.SyncAll()
	nontrivial := false
	steps := 2 + c.Int(4)
	for s := 0; s < steps; s++ {
		if scn.Cfg.Kind == "composite" && !scn.Cfg.GenerateSelector && s > 0 && c.Prob(1, 6) {
			// the user edits the parent's selector (and the hook follows): objects that matched only
			// the former selector are no longer the parent's business
			cur := scn.SelLabels["app"]
			next := cur + "-b"
			if strings.HasSuffix(cur, "-b") {
				next = strings.TrimSuffix(cur, "-b")
			}
			scn.SelLabels["app"] = next
			for i := range scn.Prog.Children {
				if scn.Prog.Children[i].Labels != nil {
					scn.Prog.Children[i].Labels["app"] = next
				}
			}
			scn.Prog.Install(env.W, scn.Cfg.Kind)
			env.W.Sim.ExtUpdate(scn.Cfg.ParentResource, scn.ParentNS(), scn.ParentName(), func(o map[string]any) {
				spec := o["spec"].(map[string]any)
				if sel, ok := spec["selector"].(map[string]any); ok {
					if ml, ok := sel["matchLabels"].(map[string]any); ok {
						ml["app"] = next
					}
				}
				if tl, ok := getPath(o, "spec.template.metadata.labels"); ok {
					if tm, ok := tl.(map[string]any); ok {
						tm["app"] = next
					}
				}
			})
			log = append(log, "parent selector edited: app="+next)
			c.Class("parent-selector-edited")
		}
		// per-resource cache lag: each cache catches up with probability 2/3
		for _, r := range env.W.ResourceNames() {
			if c.Prob(2, 3) {
				env.W.SyncCache(r)
			}
		}
		// interposer plan for this sync
		var plan []*IntOp
		nops := c.Weighted(3, 3, 2, 1)
		for i := 0; i < nops; i++ {
			plan = append(plan, &IntOp{At: c.Int(8), Op: intOps[c.Int(len(intOps))], Pick: c.Int(8)})
		}
		// which parent syncs
		who := scn.Parent
		if second != nil && c.Prob(1, 4) {
			who = second
		}
		var nestedTraces []*SyncTrace
		var nestedParents []map[string]any
		count := 0
		inNested := false
		env.W.Sim.Before = func(r *vs.Request) *vs.Fault {
			if inNested {
				return nil
			}
			idx := count
			count++
			for _, op := range plan {
				if op.At == idx && op.Done == "" {
					var nested func()
					if second != nil {
						nested = func() {
							inNested = true
							saveEpoch := env.W.Sim.Epoch
							other := second
							if metaStr(who, "name") == "p2" {
								other = scn.Parent
							}
							live := env.W.Sim.Get(scn.Cfg.ParentResource, metaStr(other, "namespace"), metaStr(other, "name"))
							if live != nil {
								nt := env.syncOf(other)
								nestedTraces = append(nestedTraces, nt)
								nestedParents = append(nestedParents, live)
							}
							env.W.Sim.Epoch = saveEpoch
							env.W.Hooks.Epoch = saveEpoch
							inNested = false
						}
					}
					op.Done = env.applyIntOp(op, second, nested)
					if op.Done != "skipped" && op.Done != "no object" {
						nontrivial = true
					}
				}
			}
			return nil
		}
		live := env.W.Sim.Get(scn.Cfg.ParentResource, metaStr(who, "namespace"), metaStr(who, "name"))
		t := env.syncOf(who)
		env.W.Sim.Before = nil
		var done []string
		for _, op := range plan {
			if op.Done != "" {
				done = append(done, fmt.Sprintf("@%d %s", op.At, op.Done))
			}
		}
		log = append(log, fmt.Sprintf("sync %s: %d requests; interposed: %v", metaStr(who, "name"), len(t.Reqs), done))
		if t.Panic != "" {
			return vs.Violf("C02/panic", "panic: %s", t.Panic)
		}
		if live != nil {
			if err := judgeWrites(c, env, t, live, t.N); err != nil {
				return withTrace(err, t)
			}
		}
		for i, nt := range nestedTraces {
			if nt.Panic != "" {
				return vs.Violf("C02/panic", "panic: %s", nt.Panic)
			}
			if err := judgeWrites(c, env, nt, nestedParents[i], nt.N); err != nil {
				return withTrace(err, nt)
			}
		}
		for _, w := range t.Writes() {
			if w.Accepted() && w.Def.Resource != scn.Cfg.ParentResource && len(seeds) > 0 {
				nontrivial = true
			}
		}
		// no object may ever carry two controller references
		for _, o := range env.childObjects() {
			if ControllerRefs(o) > 1 {
				return vs.Violf("C02/two-controller-refs", "%s has %d controller references", ObjID(o), ControllerRefs(o))
			}
		}
	}
	if nontrivial {
		c.NonTrivial()
	}
	c.Class("cfg:%s ssa=%v", kind, scn.Cfg.SSA)
	if v := env.SharedStateViolation(); v != nil {
		return v
	}
	return nil
}

func withTrace(err error, t *SyncTrace) error {
	if v, ok := err.(*vs.Violation); ok {
		v.Msg += "\ntrace of the sync:\n  " + strings.Join(t.Summary(), "\n  ")
	}
	return err
}

func stripServerFields(o map[string]any) map[string]any {
	if o == nil {
		return nil
	}
	c := vs.CopyMap(o)
	if m, ok := c["metadata"].(map[string]any); ok {
		delete(m, "resourceVersion")
		delete(m, "managedFields")
	}
	return c
}
