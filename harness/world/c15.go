package verifworld

import (
	"fmt"
	"net/http"
	"strings"

	vs "metacontroller/pkg/internal/verifsim"

	"k8s.io/client-go/tools/cache"
)

func genRelatedRules(c *vs.Case, namespacedParent bool) ([]map[string]any, bool, string) {
	n := 1 + c.Int(3)
	var rules []map[string]any
	invalid := false
	why := ""
	for i := 0; i < n; i++ {
		res := c.PickStr("configmaps", "configmaps", "widgets", "cwidgets")
		d := map[string]string{"configmaps": "v1", "widgets": "ex.io/v1", "cwidgets": "ex.io/v1"}[res]
		r := map[string]any{"apiVersion": d, "resource": res}
		switch c.Int(10) {
		case 0:
			r["labelSelector"] = map[string]any{"matchLabels": map[string]any{"rel": "yes"}}
		case 1:
			r["labelSelector"] = map[string]any{}
		case 2:
			r["labelSelector"] = map[string]any{"matchExpressions": []any{map[string]any{"key": "rel", "operator": "Exists"}}}
		case 3:
			r["namespace"] = "ns1"
		case 4:
			r["names"] = []any{"rel-a", "rel-b"}
		case 5:
			r["namespace"] = "ns1"
			r["names"] = []any{"rel-a"}
		case 6: // invalid mix
			switch c.Int(3) {
			case 0:
				r["labelSelector"] = map[string]any{"matchLabels": map[string]any{"rel": "yes"}}
			case 1:
				r["labelSelector"] = map[string]any{} // present but empty is still a label selector
			default:
				r["labelSelector"] = map[string]any{"matchExpressions": []any{map[string]any{"key": "rel", "operator": "Exists"}}}
			}
			if c.Bool() {
				r["names"] = []any{"rel-a"}
			} else {
				r["namespace"] = "ns1"
			}
			invalid = true
			why = "rule combines labelSelector with namespace/names"
		case 8: // a selector of the right shape that cannot be converted
			switch c.Int(3) {
			case 0:
				r["labelSelector"] = map[string]any{"matchExpressions": []any{map[string]any{"key": "rel", "operator": "Within", "values": []any{"yes"}}}}
			case 1:
				r["labelSelector"] = map[string]any{"matchExpressions": []any{map[string]any{"key": "rel", "operator": "In", "values": []any{}}}}
			default:
				r["labelSelector"] = map[string]any{"matchLabels": map[string]any{"bad key!": "x"}}
			}
			invalid = true
			why = "label selector cannot be converted"
		case 7: // another namespace than the (namespaced) parent's
			r["namespace"] = "ns2"
			if c.Bool() {
				r["names"] = []any{"rel-a"}
			}
			if namespacedParent && res != "cwidgets" {
				invalid = true
				why = "rule names namespace ns2 for a parent in ns1"
			} else if namespacedParent {
				invalid = true
				why = "rule names namespace ns2 for a parent in ns1"
			}
		default:
			// bare rule: everything of that resource
		}
		rules = append(rules, r)
	}
	return rules, invalid, why
}

// PropC15: the hook gets exactly what its customize rules select.
func PropC15(c *vs.Case, f Factory, kind string) error {
	scn := GenScn(c, GenOpts{Kind: kind, AllowFinalize: false, AllowRolling: kind == "composite"})
	scn.Cfg.SSA = false
	scn.Cfg.CustomizeHook = true
	dying := c.Prob(1, 4)
	if dying {
		// the parent gets deleted on the way; its finalize hook is shown the related objects too and never finishes
		scn.Cfg.FinalizeHook = true
		scn.Prog.FinalizeMode = 1
		scn.Prog.FinalizedMode = 2
	}
	namespaced := scn.ParentNS() != ""
	rules, invalid, why := genRelatedRules(c, namespaced)
	scn.Prog.Related = rules
	env, err := NewEnv(scn, f)
	if err != nil {
		return fmt.Errorf("harness: %v", err)
	}
	sink, _ := env.Ctl.(EventSink)
	// related objects across namespaces and scopes
	var seeded []string
	for _, res := range []string{"configmaps", "widgets", "cwidgets"} {
		d := env.W.Sim.Def(res)
		for _, name := range []string{"rel-a", "rel-b", "rel-x"} {
			nss := []string{""}
			if d.Namespaced {
				nss = []string{"ns1", "ns2"}
			}
			for _, ns := range nss {
				if c.Prob(1, 3) {
					continue
				}
				o := map[string]any{"apiVersion": d.APIVersion(), "kind": d.Kind}
				m := map[string]any{"name": name}
				if ns != "" {
					m["namespace"] = ns
				}
				if c.Bool() {
					m["labels"] = map[string]any{"rel": "yes"}
				} else if c.Bool() {
					m["labels"] = map[string]any{"other": "x"}
				}
				o["metadata"] = m
				if res == "configmaps" {
					o["data"] = map[string]any{"k": name}
				} else {
					o["spec"] = map[string]any{"k": name}
				}
				if _, err := env.W.Sim.ExtCreate(res, o); err == nil {
					seeded = append(seeded, res+":"+ns+"/"+name)
				}
			}
		}
	}
	var log []string
	c.Describe(func() any {
		return map[string]any{"scenario": scn, "rules": rules, "invalid": why, "related": seeded, "steps": log}
	})
	customizeCalls := map[string]int{}
	countCalls := func(hs []*HookExchange) {
		for _, h := range hs {
			if h.URL != CustomizeURL || h.Response.Code != 200 || h.Response.Err != nil {
				continue // only answers can be cached
			}
			p, _ := h.Request["parent"].(map[string]any)
			customizeCalls[fmt.Sprintf("%s/gen%v", metaStr(p, "uid"), metaOfMap(p)["generation"])]++
		}
	}
	nontrivial := false
	steps := 2 + c.Int(3)
	for s := 0; s < steps; s++ {
		if s > 0 && c.Prob(1, 3) {
			env.W.Sim.ExtUpdate(scn.Cfg.ParentResource, scn.ParentNS(), scn.ParentName(), func(o map[string]any) {
				o["spec"].(map[string]any)["other"] = fmt.Sprintf("gen%d", s)
			})
			log = append(log, "parent generation bumped")
		}
		if dying && s > 0 && env.Parent() != nil && !IsDeleting(env.Parent()) && c.Bool() {
			env.W.Sim.ExtDelete(scn.Cfg.ParentResource, scn.ParentNS(), scn.ParentName(), "")
			log = append(log, "parent deleted (held by the controller's finalizer)")
			c.Class("parent-terminating")
		}
		env.W.SyncAll()
		failCustomize := c.Prob(1, 6)
		if failCustomize {
			// a transient failure of the customize hook: reported, retried, never cached as an answer
			env.W.Hooks.Handle(CustomizeURL, func(_ *http.Request, _ []byte) HookResponse {
				return HookResponse{Code: 503, Body: []byte("unavailable")}
			})
		}
		// discovery momentarily does not know one of the related resources (its CRD was re-installed, the last
		// refresh failed for that API group): the objects exist all the same, so the hook must not be shown a
		// related map that silently lacks them - the sync fails and is retried, or the map is complete
		gapRes := ""
		if !invalid && !failCustomize && c.Prob(1, 6) {
			for _, r := range rules {
				res := fmt.Sprint(r["resource"])
				if res != scn.Cfg.ParentResource && scn.Cfg.ChildCfgOf(res) == nil {
					gapRes = res
				}
			}
			if gapRes != "" {
				env.W.Sim.SetHidden(gapRes, true)
				env.W.Resources.VerifRefresh()
				c.Class("related-resource-missing-from-discovery")
			}
		}
		t := env.Sync()
		if gapRes != "" {
			env.W.Sim.SetHidden(gapRes, false)
			env.W.Resources.VerifRefresh()
		}
		if failCustomize {
			scn.Prog.Install(env.W, scn.Cfg.Kind)
		}
		countCalls(t.Hooks)
		if t.Panic != "" {
			return vs.Violf("C15/panic", "panic: %s", t.Panic)
		}
		if failCustomize {
			asked := false
			for _, h := range t.Hooks {
				if h.URL == CustomizeURL {
					asked = true
				}
			}
			if asked {
				c.Class("customize-hook-failed-once")
				if t.Err == nil {
					return withTrace(vs.Violf("C15/customize-failure-not-reported", "the customize hook answered 503 but the sync reported no error"), t)
				}
				log = append(log, "customize hook failed (503)")
				continue
			}
		}
		var syncCalls []*HookExchange
		for _, h := range t.Hooks {
			if h.URL != CustomizeURL {
				syncCalls = append(syncCalls, h)
			}
		}
		log = append(log, fmt.Sprintf("sync err=%v hookCalls=%d", t.Err, len(syncCalls)))
		if invalid {
			c.Class("invalid-rules")
			nontrivial = true
			if t.Err == nil {
				return withTrace(vs.Violf("C15/invalid-rule-accepted", "%s, but the sync reported no error (a selection style was chosen silently)", why), t)
			}
			if len(syncCalls) > 0 {
				return withTrace(vs.Violf("C15/hook-called-despite-invalid-rule", "%s, yet the sync hook was called", why), t)
			}
			continue
		}
		if t.Err != nil && gapRes != "" {
			if len(syncCalls) > 0 {
				return withTrace(vs.Violf("C15/hook-called-despite-unresolvable-rule", "discovery does not list %s, the sync failed (%v), yet the sync hook was called", gapRes, t.Err), t)
			}
			log = append(log, "related resource "+gapRes+" missing from discovery: sync failed, to be retried")
			nontrivial = true
			continue
		}
		if t.Err != nil {
			return withTrace(vs.Violf("C15/valid-rules-rejected", "valid related rules %v but the sync failed: %v", rules, t.Err), t)
		}
		parent := env.Parent()
		// reference selection from the cache snapshot the sync read
		var selected []map[string]any
		resSet := map[string]bool{}
		var resList []string
		for _, r := range rules {
			res := fmt.Sprint(r["resource"])
			if !resSet[res] {
				resSet[res] = true
				resList = append(resList, res)
			}
		}
		rejected := 0
		for _, res := range resList {
			for _, o := range t.PreCache[res] {
				if relatedSelected(env, parent, rules, o) {
					selected = append(selected, o)
				} else {
					rejected++
				}
			}
		}
		want := WireChildren(env.W.Sim, resList, scn.ParentNS(), selected)
		if len(selected) > 0 && rejected > 0 {
			nontrivial = true
		}
		for _, h := range syncCalls {
			got, _ := h.Request["related"].(map[string]any)
			if got == nil {
				return withTrace(vs.Violf("C15/no-related-map", "hook request has no related map"), t)
			}
			if err := compareViews(got, want); err != nil {
				if v, ok := err.(*vs.Violation); ok {
					v.Sig = strings.Replace(v.Sig, "C03/", "C15/related-", 1)
					v.Msg = fmt.Sprintf("related map differs from the reference selection for rules %v: %s", rules, v.Msg)
				}
				return withTrace(err, t)
			}
		}
		// agreement: whatever is in the related map wakes the parent when it changes
		if sink != nil {
			for _, o := range selected {
				env.W.Queue.Take()
				cur := vs.CopyMap(o)
				cur["metadata"].(map[string]any)["resourceVersion"] = "99999"
				sink.RelatedUpdate(u(o), u(cur))
				woke := false
				for _, q := range env.W.Queue.Take() {
					if q.Op == "Add" && q.Key == env.ParentKey() {
						woke = true
					}
				}
				countCalls(env.W.Hooks.Take())
				if !woke {
					return vs.Violf("C15/related-object-does-not-wake-parent", "%s is in the parent's related map (rules %v) but an update of it does not enqueue the parent", ObjID(o), rules)
				}
				c.Class("agreement-checked")
				// ... and so does its disappearance, also when the informer only learns of it from a fresh
				// list (the handler is then given a tombstone instead of the object)
				env.W.Queue.Take()
				key := metaStr(o, "name")
				if ns := metaStr(o, "namespace"); ns != "" {
					key = ns + "/" + key
				}
				if c.Bool() {
					sink.RelatedDelete(u(o))
				} else {
					sink.RelatedDelete(cache.DeletedFinalStateUnknown{Key: key, Obj: u(o)})
					c.Class("related-delete-tombstone")
				}
				woke = false
				for _, q := range env.W.Queue.Take() {
					if q.Op == "Add" && q.Key == env.ParentKey() {
						woke = true
					}
				}
				countCalls(env.W.Hooks.Take())
				if !woke {
					return vs.Violf("C15/related-object-does-not-wake-parent", "%s is in the parent's related map (rules %v) but its deletion does not enqueue the parent", ObjID(o), rules)
				}
			}
		}
	}
	for k, n := range customizeCalls {
		if n > 1 {
			return vs.Violf("C15/customize-hook-called-again", "the customize hook was asked %d times for %s although its answer is cached per UID and generation", n, k)
		}
	}
	if nontrivial {
		c.NonTrivial()
	}
	if v := env.SharedStateViolation(); v != nil {
		return v
	}
	return nil
}
