package verifworld

import (
	"context"
	"fmt"
	"sort"
	"strings"
	"sync"
	"sync/atomic"
	"time"

	"metacontroller/pkg/apis/metacontroller/v1alpha1"
	mcinformers "metacontroller/pkg/client/generated/informer/externalversions"
	mclisters "metacontroller/pkg/client/generated/lister/metacontroller/v1alpha1"
	vs "metacontroller/pkg/internal/verifsim"

	metav1 "k8s.io/apimachinery/pkg/apis/meta/v1"
	"k8s.io/apimachinery/pkg/labels"
	"k8s.io/client-go/tools/cache"
)

// C09GateDriver starts a real composite Metacontroller instance (Reconcile ->
// newParentController -> Start, workers and all) that reads ControllerRevisions
// through the given lister/informer pair, the way NewMetacontroller wires them.
type C09GateDriver interface {
	StartInstance(env *C20Env, lister mclisters.ControllerRevisionLister, informer cache.SharedIndexInformer, name string) (stop func(), err error)
}

// PropC09RestartBeforeRevisionCache: a restarted metacontroller whose ControllerRevision
// LIST is slow (nothing else is) must not act on the children of a rolling parent before
// it knows the recorded rollout state: with an empty revision cache every child looks
// unassigned, so acting means creating a second claim for children the old revision
// still lists and updating all of them at once.
//
// History: instance A (revision cache in sync) brings n children up at template v1 and is
// stopped; the parent's template is edited while nothing runs; instance B starts while the
// API server holds back the answer to its ControllerRevision LIST for a drawn time.
// Oracle: (1) while that LIST is outstanding B sends no mutating request for widgets or
// ControllerRevisions; (2) at no time is a child listed by two revisions of its parent
// after a request of B has been answered; (3) once the LIST is answered the rollout
// completes: every child at v2, one revision left.
func PropC09RestartBeforeRevisionCache(c *vs.Case, drv C09GateDriver) error {
	return propRestartWithSlowList(c, drv, "controllerrevisions")
}

// PropC03RestartBeforeChildCache: the same history with the LIST of the child resource held back instead.
// Oracle (C03): every sync-hook call the restarted instance makes shows all n children, which exist throughout -
// a sync that runs before the child cache is filled would show none of them. In the thorough tier the LIST is
// also held for 11 s, longer than any grace period one might be tempted to give a slow informer.
func PropC03RestartBeforeChildCache(c *vs.Case, drv C09GateDriver) error {
	return propRestartWithSlowList(c, drv, "widgets")
}

func propRestartWithSlowList(c *vs.Case, drv C09GateDriver, heldRes string) error {
	env := NewC20Env()
	n := 2 + c.Int(3)
	method := v1alpha1.ChildUpdateMethod(c.PickStr("RollingInPlace", "RollingRecreate", "RollingInPlace"))
	holds := []int{120, 250, 400}
	if heldRes == "widgets" && vs.Tier() == "thorough" {
		holds = append(holds, 11000)
	}
	holdMs := holds[c.Int(len(holds))]
	editWhileDown := c.Weighted(3, 1) == 0 // otherwise the edit lands while A still runs (A is stopped right after)
	var log []string
	c.Describe(func() any {
		var reqs []string
		for _, r := range env.W.Sim.LogSince(0) {
			if r.Mutating() {
				reqs = append(reqs, fmt.Sprintf("%s %s %s/%s %s -> %d", r.Verb, r.Def.Resource, r.Namespace, r.Name, r.Subresource, r.Code))
			}
		}
		return map[string]any{"children": n, "method": method, "heldList": heldRes, "listHeldMs": holdMs, "editWhileDown": editWhileDown, "steps": log, "mutatingRequests": reqs}
	})
	ctx := context.Background()
	url := "http://hook.invalid/gate/v1/sync"
	cc := &v1alpha1.CompositeController{TypeMeta: metav1.TypeMeta{APIVersion: "metacontroller.k8s.io/v1alpha1", Kind: "CompositeController"},
		ObjectMeta: metav1.ObjectMeta{Name: "gate", Generation: 1}}
	cc.Spec.ParentResource.APIVersion = "ex.io/v1"
	cc.Spec.ParentResource.Resource = "things"
	cc.Spec.ChildResources = []v1alpha1.CompositeControllerChildResourceRule{{ResourceRule: v1alpha1.ResourceRule{APIVersion: "ex.io/v1", Resource: "widgets"},
		UpdateStrategy: &v1alpha1.CompositeControllerChildUpdateStrategy{Method: method}}}
	cc.Spec.Hooks = &v1alpha1.CompositeControllerHooks{Sync: &v1alpha1.Hook{Webhook: &v1alpha1.Webhook{URL: &url}}}
	if err := env.K8s.Create(ctx, cc); err != nil {
		return fmt.Errorf("harness: %v", err)
	}
	var shownMu sync.Mutex
	bRunning := false
	var shown []int // number of widgets each sync-hook call of instance B was shown
	env.Router.mu.Lock()
	env.Router.Answer = func(u string, body map[string]any) map[string]any {
		parent, _ := body["parent"].(map[string]any)
		v, _ := getPath(parent, "spec.template.v")
		shownMu.Lock()
		if bRunning {
			k := 0
			chs, _ := body["children"].(map[string]any)
			for gk, m := range chs {
				if mm, ok := m.(map[string]any); ok && strings.HasPrefix(gk, "Widget.") {
					k += len(mm)
				}
			}
			shown = append(shown, k)
		}
		shownMu.Unlock()
		var children []any
		for i := 0; i < n; i++ {
			children = append(children, map[string]any{"apiVersion": "ex.io/v1", "kind": "Widget",
				"metadata": map[string]any{"name": fmt.Sprintf("p1-w-%d", i), "labels": map[string]any{"app": "p1"}},
				"spec":     map[string]any{"v": v}})
		}
		return map[string]any{"children": children, "status": map[string]any{"seen": true}}
	}
	env.Router.mu.Unlock()
	defer func() {
		env.Router.mu.Lock()
		env.Router.Answer = nil
		env.Router.mu.Unlock()
	}()
	if _, err := env.W.Sim.ExtCreate("things", map[string]any{"apiVersion": "ex.io/v1", "kind": "Thing",
		"metadata": map[string]any{"name": "p1", "namespace": "ns1"},
		"spec": map[string]any{"selector": map[string]any{"matchLabels": map[string]any{"app": "p1"}},
			// without a generated selector the revisions are found through spec.template.metadata.labels
			"template": map[string]any{"v": "v1", "metadata": map[string]any{"labels": map[string]any{"app": "p1"}}}}}); err != nil {
		return fmt.Errorf("harness: %v", err)
	}

	// the API server: the gate holds back ControllerRevision LISTs; everything B writes is recorded
	var gateMu sync.Mutex
	var gate chan struct{}
	var listsHeld int32
	var early []string // B's mutating requests while its revision LIST was outstanding
	env.W.Sim.Before = func(r *vs.Request) *vs.Fault {
		gateMu.Lock()
		g := gate
		gateMu.Unlock()
		if g == nil {
			return nil
		}
		if r.Verb == "list" && r.Def.Resource == heldRes {
			atomic.AddInt32(&listsHeld, 1)
			<-g
			return nil
		}
		if r.Mutating() && (r.Def.Resource == "widgets" || r.Def.Resource == "controllerrevisions") {
			gateMu.Lock()
			if gate != nil {
				early = append(early, fmt.Sprintf("%s %s %s/%s", r.Verb, r.Def.Resource, r.Namespace, r.Name))
			}
			gateMu.Unlock()
		}
		return nil
	}
	defer func() { env.W.Sim.Before = nil }()

	widgetsAt := func() map[string]string {
		out := map[string]string{}
		for _, o := range env.W.Sim.ListAll("widgets") {
			v, _ := getPath(o, "spec.v")
			out[metaStr(o, "name")] = fmt.Sprint(v)
		}
		return out
	}
	claims := func() map[string][]string {
		out := map[string][]string{}
		for _, ro := range env.W.Sim.ListAll("controllerrevisions") {
			chs, _ := ro["children"].([]any)
			for _, ch := range chs {
				m, _ := ch.(map[string]any)
				names, _ := m["names"].([]any)
				for _, nm := range names {
					out[fmt.Sprint(nm)] = append(out[fmt.Sprint(nm)], metaStr(ro, "name"))
				}
			}
		}
		return out
	}
	allAt := func(v string) bool {
		w := widgetsAt()
		if len(w) != n {
			return false
		}
		for _, x := range w {
			if x != v {
				return false
			}
		}
		return true
	}

	// ---- instance A: an ordinary run, revision cache in sync
	stopA := make(chan struct{})
	fa := mcinformers.NewSharedInformerFactory(env.W.McClient, 0)
	la, ia := fa.Metacontroller().V1alpha1().ControllerRevisions().Lister(), fa.Metacontroller().V1alpha1().ControllerRevisions().Informer()
	fa.Start(stopA)
	if !cache.WaitForCacheSync(stopA, ia.HasSynced) {
		return fmt.Errorf("harness: revision informer of instance A did not sync")
	}
	stopInstA, err := drv.StartInstance(env, la, ia, "gate")
	if err != nil {
		close(stopA)
		return fmt.Errorf("harness: %v", err)
	}
	up := pollFor(10*time.Second, func() bool { return allAt("v1") && len(env.W.Sim.ListAll("controllerrevisions")) == 1 })
	if up {
		seen := pollFor(5*time.Second, func() bool {
			l, _ := la.ControllerRevisions("ns1").List(labels.Everything())
			return len(l) == 1
		})
		if !seen {
			stopInstA()
			close(stopA)
			return fmt.Errorf("harness: instance A's revision informer never saw the revision A created")
		}
	}
	edit := func() {
		env.W.Sim.ExtUpdate("things", "ns1", "p1", func(o map[string]any) {
			o["spec"].(map[string]any)["template"].(map[string]any)["v"] = "v2"
		})
	}
	if up && !editWhileDown {
		edit()
		log = append(log, "template.v=v2 while instance A runs")
	}
	stopInstA()
	close(stopA)
	if !up {
		return fmt.Errorf("harness: instance A did not bring the children up (widgets %v)", widgetsAt())
	}
	time.Sleep(20 * time.Millisecond) // let A's last in-flight request land
	if editWhileDown {
		edit()
		log = append(log, "template.v=v2 while nothing runs")
	}
	before := widgetsAt()
	log = append(log, fmt.Sprintf("at restart: widgets %v, claims %v", before, claims()))

	// ---- instance B: restarted process; its ControllerRevision LIST is slow
	g := make(chan struct{})
	gateMu.Lock()
	gate = g
	gateMu.Unlock()
	shownMu.Lock()
	bRunning = true
	shownMu.Unlock()
	stopB := make(chan struct{})
	fb := mcinformers.NewSharedInformerFactory(env.W.McClient, 0)
	lb, ib := fb.Metacontroller().V1alpha1().ControllerRevisions().Lister(), fb.Metacontroller().V1alpha1().ControllerRevisions().Informer()
	fb.Start(stopB)
	stopInstB, err := drv.StartInstance(env, lb, ib, "gate")
	release := func() {
		gateMu.Lock()
		if gate != nil {
			close(gate)
			gate = nil
		}
		gateMu.Unlock()
	}
	defer func() {
		release()
		if stopInstB != nil {
			stopInstB()
		}
		close(stopB)
	}()
	if err != nil {
		return fmt.Errorf("harness: %v", err)
	}
	time.Sleep(time.Duration(holdMs) * time.Millisecond)
	held := atomic.LoadInt32(&listsHeld)
	dup := ""
	cl := claims()
	names := make([]string, 0, len(cl))
	for k := range cl {
		names = append(names, k)
	}
	sort.Strings(names)
	for _, k := range names {
		if len(cl[k]) > 1 {
			dup = fmt.Sprintf("%s listed by %v", k, cl[k])
			break
		}
	}
	release()
	gateMu.Lock()
	acted := append([]string(nil), early...)
	gateMu.Unlock()
	if held == 0 {
		return fmt.Errorf("harness: instance B never listed %s", heldRes)
	}
	c.NonTrivial()
	c.Class("held-%s-%dms", heldRes, holdMs)
	if heldRes == "widgets" {
		// RollingRecreate deletes a child before it re-creates it: one child may be legitimately absent then
		min := n
		if method == "RollingRecreate" {
			min = n - 1
		}
		check := func() error {
			shownMu.Lock()
			defer shownMu.Unlock()
			for i, k := range shown {
				if k < min {
					return vs.Violf("C03/hook-shown-incomplete-children", "restarted with %d owned children in the store; sync-hook call #%d of the restarted controller was shown %d of them (the LIST of the child resource was held back for %d ms)", n, i+1, k, holdMs)
				}
			}
			return nil
		}
		if err := check(); err != nil {
			return err
		}
		done := pollFor(15*time.Second, func() bool { return allAt("v2") && len(env.W.Sim.ListAll("controllerrevisions")) == 1 })
		if err := check(); err != nil {
			return err
		}
		if !done {
			return vs.Violf("C08/rollout-not-resumed-after-restart", "15 s after the child LIST was answered the rollout has not completed: widgets %v", widgetsAt())
		}
		return nil
	}
	if len(acted) > 0 {
		return vs.Violf("C09/acted-before-revision-cache-synced", "restarted with %d children at %v and the parent at v2; while the ControllerRevision LIST was still outstanding (%d ms) the controller already sent %d mutating requests: %v", n, before, holdMs, len(acted), acted)
	}
	if dup != "" {
		return vs.Violf("C09/child-claimed-twice", "while the ControllerRevision LIST was outstanding: %s", dup)
	}
	done := pollFor(15*time.Second, func() bool { return allAt("v2") && len(env.W.Sim.ListAll("controllerrevisions")) == 1 })
	if !done {
		return vs.Violf("C09/rollout-not-resumed-after-restart", "15 s after the ControllerRevision LIST was answered the rollout has not completed: widgets %v, revisions %d, claims %v", widgetsAt(), len(env.W.Sim.ListAll("controllerrevisions")), claims())
	}
	for k, v := range claims() {
		if len(v) > 1 {
			return vs.Violf("C09/child-claimed-twice", "after the rollout: %s listed by %v", k, v)
		}
	}
	return nil
}
