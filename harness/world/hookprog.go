package verifworld

import (
	"encoding/json"
	"fmt"
	"net/http"
	"strings"

	vs "metacontroller/pkg/internal/verifsim"
)

// ChildTpl describes a family of desired children of one resource.
type ChildTpl struct {
	Resource   string            `json:"resource"`
	Names      []string          `json:"names,omitempty"`
	Replicated bool              `json:"replicated,omitempty"` // also "<parent>-<i>" for i < spec.replicas
	Namespaces []string          `json:"namespaces,omitempty"` // explicit namespaces (cluster-scoped parents); empty = omit namespace
	ExplicitNS bool              `json:"explicitNS,omitempty"` // namespaced parent: spell the parent's namespace out
	Labels     map[string]string `json:"labels,omitempty"`
	// LabelsFromSelector: the hook labels its children with the matchLabels of the selector of the parent it was
	// shown (per-revision calls of a rollout are shown the parent as it was at that revision).
	LabelsFromSelector bool           `json:"labelsFromSelector,omitempty"`
	Fields             map[string]any `json:"fields,omitempty"` // string leaves "$p:<path>" are replaced by the parent's value at path
	// EchoAnnotations: when the child is observed, the hook copies the observed
	// metadata.annotations into its desired child (a common "start from what I was sent" hook style).
	EchoAnnotations bool `json:"echoAnnotations,omitempty"`
	// Annotations the hook itself puts on the desired child.
	Annotations map[string]string `json:"annotations,omitempty"`
	// OwnerRefs: owner references the hook itself puts on the desired child.
	OwnerRefs []map[string]any `json:"ownerRefs,omitempty"`
}

// HookProgram is a pure, serialisable hook: response = f(request JSON).
type HookProgram struct {
	Children      []ChildTpl `json:"children"`
	Ordered       bool       `json:"ordered,omitempty"`       // emit child i only once children 0..i-1 are observed
	OrderedReady  bool       `json:"orderedReady,omitempty"`  // ... and Ready
	StatusMode    int        `json:"statusMode"`              // 0 null, 1 {}, 2 counts+echo, 3 with own Updated condition, 4 own observedGeneration
	FinalizeMode  int        `json:"finalizeMode"`            // 0 drop all; 1 keep all; 2 drop last observed per call
	SyncFinalized bool       `json:"syncFinalized,omitempty"` // sync answers carry finalized: true as well
	FinalizedMode int        `json:"finalizedMode"`           // 0 iff no children observed; 1 always; 2 never; 3 iff spec.template.v == v2
	ResyncAfter   float64    `json:"resyncAfter,omitempty"`
	// decorator
	Labels      map[string]*string `json:"labels,omitempty"`
	Annotations map[string]*string `json:"annotations,omitempty"`
	DecStatus   int                `json:"decStatus,omitempty"` // 0 null, 1 fixed map, 2 echo
	// customize
	Related []map[string]any `json:"related,omitempty"`
}

// GroupKey spells the wire key of a child resource: Kind.version or Kind.group/version.
func GroupKey(d *vs.ResourceDef) string {
	if d.Group == "" {
		return d.Kind + "." + d.Version
	}
	return d.Kind + "." + d.Group + "/" + d.Version
}

// WireName is the documented inner key: namespace/name iff the parent is
// cluster-scoped and the child namespaced, else name.
func WireName(parentNS string, child map[string]any) string {
	m, _ := child["metadata"].(map[string]any)
	ns, _ := m["namespace"].(string)
	name, _ := m["name"].(string)
	if parentNS == "" && ns != "" {
		return ns + "/" + name
	}
	return name
}

func getPath(obj map[string]any, path string) (any, bool) {
	var cur any = obj
	for _, p := range strings.Split(path, ".") {
		m, ok := cur.(map[string]any)
		if !ok {
			return nil, false
		}
		cur, ok = m[p]
		if !ok {
			return nil, false
		}
	}
	return cur, true
}

func substRefs(v any, parent map[string]any) any {
	switch t := v.(type) {
	case map[string]any:
		out := make(map[string]any, len(t))
		for k, x := range t {
			out[k] = substRefs(x, parent)
		}
		return out
	case []any:
		out := make([]any, len(t))
		for i, x := range t {
			out[i] = substRefs(x, parent)
		}
		return out
	case string:
		if strings.HasPrefix(t, "$p:") {
			if val, ok := getPath(parent, t[3:]); ok {
				switch val.(type) {
				case map[string]any, []any:
					return vs.DeepCopyAny(val)
				case nil:
					return "null"
				}
				return val
			}
			return "unset"
		}
		return t
	default:
		return v
	}
}

func metaStr(obj map[string]any, f string) string {
	m, _ := obj["metadata"].(map[string]any)
	s, _ := m[f].(string)
	return s
}

// DesiredAll lists every child the program wants for this parent, ignoring
// ordering gates, in response order.
func (p *HookProgram) DesiredAll(sim *vs.Server, parent map[string]any) []map[string]any {
	var out []map[string]any
	pname := metaStr(parent, "name")
	pns := metaStr(parent, "namespace")
	replicas := 0
	if r, ok := getPath(parent, "spec.replicas"); ok {
		switch n := r.(type) {
		case int64:
			replicas = int(n)
		case float64:
			replicas = int(n)
		case int:
			replicas = n
		}
	}
	for _, tpl := range p.Children {
		d := sim.Def(tpl.Resource)
		names := append([]string(nil), tpl.Names...)
		if tpl.Replicated {
			for i := 0; i < replicas; i++ {
				names = append(names, fmt.Sprintf("%s-%s-%d", pname, strings.ToLower(d.Kind[:1]), i))
			}
		}
		nss := []string{""}
		if d.Namespaced {
			if pns != "" {
				if tpl.ExplicitNS {
					nss = []string{pns}
				}
			} else if len(tpl.Namespaces) > 0 {
				nss = tpl.Namespaces
			} else {
				nss = []string{"ns1"}
			}
		}
		for _, ns := range nss {
			for _, n := range names {
				obj := map[string]any{"apiVersion": d.APIVersion(), "kind": d.Kind}
				meta := map[string]any{"name": n}
				if ns != "" {
					meta["namespace"] = ns
				}
				if len(tpl.Labels) > 0 {
					l := map[string]any{}
					for k, v := range tpl.Labels {
						l[k] = v
					}
					meta["labels"] = l
				}
				if tpl.LabelsFromSelector {
					if ml, ok := getPath(parent, "spec.selector.matchLabels"); ok {
						if mm, ok := ml.(map[string]any); ok {
							l, _ := meta["labels"].(map[string]any)
							if l == nil {
								l = map[string]any{}
							}
							for k, v := range mm {
								l[k] = v
							}
							meta["labels"] = l
						}
					}
				}
				if len(tpl.Annotations) > 0 {
					a := map[string]any{}
					for k, v := range tpl.Annotations {
						a[k] = v
					}
					meta["annotations"] = a
				}
				if len(tpl.OwnerRefs) > 0 {
					refs := make([]any, 0, len(tpl.OwnerRefs))
					for _, r := range tpl.OwnerRefs {
						refs = append(refs, vs.DeepCopyAny(r))
					}
					meta["ownerReferences"] = refs
				}
				obj["metadata"] = meta
				for k, v := range tpl.Fields {
					obj[k] = substRefs(v, parent)
				}
				out = append(out, obj)
			}
		}
	}
	return out
}

// observedHas reports whether the request's children map holds the desired
// child, and whether it is Ready.
func observedLookup(sim *vs.Server, observed map[string]any, parentNS string, child map[string]any) (map[string]any, bool) {
	d := sim.DefByKind(child["apiVersion"].(string), child["kind"].(string))
	grp, _ := observed[GroupKey(d)].(map[string]any)
	c := vs.CopyMap(child)
	if d.Namespaced && metaStr(c, "namespace") == "" {
		c["metadata"].(map[string]any)["namespace"] = parentNS
	}
	o, ok := grp[WireName(parentNS, c)].(map[string]any)
	return o, ok
}

// IsReady is the health notion used by ordered programs and status checks.
func IsReady(obj map[string]any) bool {
	conds, _ := getPath(obj, "status.conditions")
	l, _ := conds.([]any)
	for _, c := range l {
		m, _ := c.(map[string]any)
		if m["type"] == "Ready" && m["status"] == "True" {
			return true
		}
	}
	return false
}

func countObserved(observed map[string]any) int {
	n := 0
	for _, g := range observed {
		if m, ok := g.(map[string]any); ok {
			n += len(m)
		}
	}
	return n
}

// EvalComposite computes the composite sync/finalize response.
func (p *HookProgram) EvalComposite(sim *vs.Server, req map[string]any) map[string]any {
	parent, _ := req["parent"].(map[string]any)
	observed, _ := req["children"].(map[string]any)
	finalizing, _ := req["finalizing"].(bool)
	return p.eval(sim, parent, observed, finalizing, "children")
}

func (p *HookProgram) eval(sim *vs.Server, parent, observed map[string]any, finalizing bool, childKey string) map[string]any {
	pns := metaStr(parent, "namespace")
	all := p.DesiredAll(sim, parent)
	var desired []any
	if p.Ordered {
		for _, c := range all {
			desired = append(desired, c)
			o, ok := observedLookup(sim, observed, pns, c)
			if !ok || (p.OrderedReady && !IsReady(o)) {
				break
			}
		}
	} else {
		for _, c := range all {
			desired = append(desired, c)
		}
	}
	// hooks that echo observed annotations back
	for _, tpl := range p.Children {
		if !tpl.EchoAnnotations {
			continue
		}
		d := sim.Def(tpl.Resource)
		for i, c := range desired {
			cm := c.(map[string]any)
			if cm["kind"] != d.Kind {
				continue
			}
			if o, ok := observedLookup(sim, observed, pns, cm); ok {
				if ann, ok := getPath(o, "metadata.annotations"); ok {
					cc := vs.CopyMap(cm)
					merged, _ := vs.DeepCopyAny(ann).(map[string]any)
					if merged == nil {
						merged = map[string]any{}
					}
					if own, ok := cc["metadata"].(map[string]any)["annotations"].(map[string]any); ok {
						for k, v := range own {
							merged[k] = v
						}
					}
					cc["metadata"].(map[string]any)["annotations"] = merged
					desired[i] = cc
				}
			}
		}
	}
	resp := map[string]any{}
	nObs := countObserved(observed)
	if finalizing {
		switch p.FinalizeMode {
		case 0:
			desired = nil
		case 1:
			// keep all
		case 2:
			// keep only those observed, minus the last observed one
			var kept []any
			for _, c := range desired {
				if _, ok := observedLookup(sim, observed, pns, c.(map[string]any)); ok {
					kept = append(kept, c)
				}
			}
			if len(kept) > 0 {
				kept = kept[:len(kept)-1]
			}
			desired = kept
		}
		switch p.FinalizedMode {
		case 0:
			resp["finalized"] = nObs == 0
		case 1:
			resp["finalized"] = true
		case 3:
			// depends on a revisioned parent field: live revisions can disagree
			v, _ := getPath(parent, "spec.template.v")
			resp["finalized"] = v == "v2"
		default:
			resp["finalized"] = false
		}
		if f, _ := resp["finalized"].(bool); f && p.FinalizedMode != 3 {
			// a hook that declares itself finalized no longer desires children
			// (anything else is a contradictory answer, outside the input contract)
			desired = nil
		}
	}
	if !finalizing && p.SyncFinalized {
		resp["finalized"] = true
	}
	if desired == nil {
		desired = []any{}
	}
	resp[childKey] = desired
	switch p.StatusMode {
	case 0:
		// omit
	case 1:
		resp["status"] = map[string]any{}
	case 2:
		st := map[string]any{"observed": int64(nObs)}
		if v, ok := getPath(parent, "spec.other"); ok {
			st["echo"] = v
		}
		resp["status"] = st
	case 3:
		resp["status"] = map[string]any{"observed": int64(nObs), "conditions": []any{
			map[string]any{"type": "Ready", "status": "True"},
			map[string]any{"type": "Updated", "status": "Unknown", "reason": "HookSaysSo"},
		}}
	case 5:
		// the hook's own Updated condition comes first (and alone)
		resp["status"] = map[string]any{"conditions": []any{
			map[string]any{"type": "Updated", "status": "Unknown", "reason": "HookSaysSo"},
		}}
	default:
		resp["status"] = map[string]any{"observedGeneration": int64(999), "observed": int64(nObs)}
	}
	if p.ResyncAfter != 0 {
		resp["resyncAfterSeconds"] = p.ResyncAfter
	}
	return resp
}

// EvalDecorator computes the decorator sync/finalize response.
func (p *HookProgram) EvalDecorator(sim *vs.Server, req map[string]any) map[string]any {
	parent, _ := req["object"].(map[string]any)
	observed, _ := req["attachments"].(map[string]any)
	finalizing, _ := req["finalizing"].(bool)
	q := *p // (a copy: hook programs are evaluated concurrently)
	q.StatusMode = 0
	resp := q.eval(sim, parent, observed, finalizing, "attachments")
	if p.Labels != nil {
		l := map[string]any{}
		for k, v := range p.Labels {
			if v == nil {
				l[k] = nil
			} else {
				l[k] = *v
			}
		}
		resp["labels"] = l
	}
	if p.Annotations != nil {
		l := map[string]any{}
		for k, v := range p.Annotations {
			if v == nil {
				l[k] = nil
			} else {
				l[k] = *v
			}
		}
		resp["annotations"] = l
	}
	switch p.DecStatus {
	case 1:
		resp["status"] = map[string]any{"decorated": true, "n": int64(3)}
	case 2:
		st := map[string]any{"attached": int64(countObserved(observed))}
		if v, ok := getPath(parent, "spec.other"); ok {
			st["echo"] = v
		}
		resp["status"] = st
	}
	return resp
}

// EvalCustomize answers the customize hook.
func (p *HookProgram) EvalCustomize(req map[string]any) map[string]any {
	rel := make([]any, 0, len(p.Related))
	for _, r := range p.Related {
		rel = append(rel, r)
	}
	return map[string]any{"relatedResources": rel}
}

// Install registers the program as the sync, finalize and customize endpoints
// of a world. kind is "composite" or "decorator".
func (p *HookProgram) Install(w *World, kind string) {
	h := func(_ *http.Request, body []byte) HookResponse {
		req, err := vs.DecodeJSON(body)
		if err != nil {
			return HookResponse{Code: 400, Body: []byte(err.Error())}
		}
		var resp map[string]any
		if kind == "decorator" {
			resp = p.EvalDecorator(w.Sim, req)
		} else {
			resp = p.EvalComposite(w.Sim, req)
		}
		b, _ := json.Marshal(resp)
		return HookResponse{Code: 200, Body: b}
	}
	w.Hooks.Handle(SyncURL, h)
	w.Hooks.Handle(FinalizeURL, h)
	w.Hooks.Handle(CustomizeURL, func(_ *http.Request, body []byte) HookResponse {
		req, _ := vs.DecodeJSON(body)
		b, _ := json.Marshal(p.EvalCustomize(req))
		return HookResponse{Code: 200, Body: b}
	})
}
