package verifworld

import (
	"fmt"
	"sort"

	"metacontroller/pkg/apis/metacontroller/v1alpha1"
	vs "metacontroller/pkg/internal/verifsim"

	metav1 "k8s.io/apimachinery/pkg/apis/meta/v1"
)

// CondCheck is one rolling-update status check.
type CondCheck struct {
	Type   string  `json:"type"`
	Status *string `json:"status,omitempty"`
	Reason *string `json:"reason,omitempty"`
}

// ChildCfg declares one child (attachment) resource of a controller.
type ChildCfg struct {
	Resource string      `json:"resource"`
	Method   string      `json:"method"` // "" (unset) OnDelete Recreate InPlace RollingRecreate RollingInPlace or anything else (unknown)
	NoStrat  bool        `json:"noStrategy,omitempty"`
	Checks   []CondCheck `json:"checks,omitempty"`
}

// CtlConfig is the generated controller configuration.
type CtlConfig struct {
	Kind            string   `json:"kind"` // composite | decorator
	Name            string   `json:"name"`
	ParentResource  string   `json:"parentResource"`
	ParentResources []string `json:"parentResources,omitempty"` // decorator
	// TwinParent (decorator): "" | "ignores" | "heeds". A first resource rule is added for a resource with the
	// same plural and kind as the parent's in API group twin.io (served by the world), with ignoreStatusChanges
	// set ("ignores") or unset ("heeds"), whatever IgnoreStatus says for the real parent rule.
	TwinParent       string            `json:"twinParent,omitempty"`
	Children         []ChildCfg        `json:"children"`
	GenerateSelector bool              `json:"generateSelector,omitempty"`
	FinalizeHook     bool              `json:"finalizeHook,omitempty"`
	SyncHook         bool              `json:"syncHook"`
	CustomizeHook    bool              `json:"customizeHook,omitempty"`
	SSA              bool              `json:"ssa,omitempty"`
	ParentSelector   map[string]string `json:"parentSelector,omitempty"`      // controller-level label selector on parents
	ParentAnnSel     map[string]string `json:"parentAnnotationSel,omitempty"` // decorator annotation selector
	// SelAsExpressions renders both selectors as matchExpressions (key In [value]) instead of matchLabels.
	SelAsExpressions bool     `json:"selectorsAsExpressions,omitempty"`
	FieldPaths       []string `json:"fieldPaths,omitempty"`
	IgnoreStatus     bool     `json:"ignoreStatusChanges,omitempty"`
	Strict           bool     `json:"strict,omitempty"`
	Etag             bool     `json:"etag,omitempty"`
	// EmptyRevisionHistory (only without FieldPaths): 1 = an empty revisionHistory block, 2 = an empty fieldPaths list.
	EmptyRevisionHistory int `json:"emptyRevisionHistory,omitempty"`
	// SubresourcesFirst: the API server's discovery documents list "<resource>/status" before "<resource>".
	SubresourcesFirst bool `json:"subresourcesFirst,omitempty"`
	// RealRelatedInformers: the customize manager creates its related informers lazily
	// through a real SharedInformerFactory over the simulator (instead of pre-seeded ones).
	RealRelatedInformers bool `json:"realRelatedInformers,omitempty"`
}

const (
	SyncURL      = "http://hook.invalid/sync"
	FinalizeURL  = "http://hook.invalid/finalize"
	CustomizeURL = "http://hook.invalid/customize"
)

func strp(s string) *string { return &s }

// labelSelector renders a key=value map as matchLabels or as equivalent matchExpressions.
func (cfg *CtlConfig) labelSelector(m map[string]string) *metav1.LabelSelector {
	if !cfg.SelAsExpressions {
		return &metav1.LabelSelector{MatchLabels: m}
	}
	ls := &metav1.LabelSelector{}
	keys := make([]string, 0, len(m))
	for k := range m {
		keys = append(keys, k)
	}
	sort.Strings(keys)
	for _, k := range keys {
		ls.MatchExpressions = append(ls.MatchExpressions, metav1.LabelSelectorRequirement{Key: k, Operator: metav1.LabelSelectorOpIn, Values: []string{m[k]}})
	}
	return ls
}
func boolp(b bool) *bool { return &b }

func webhook(url string, cfg *CtlConfig) *v1alpha1.Hook {
	wh := &v1alpha1.Webhook{URL: strp(url)}
	if cfg.Strict {
		m := v1alpha1.ResponseUnmarshallModeStrict
		wh.ResponseUnmarshallMode = &m
	}
	return &v1alpha1.Hook{Webhook: wh}
}

func (cfg *CtlConfig) Mode() *v1alpha1.ResponseUnmarshallMode {
	if cfg.Strict {
		m := v1alpha1.ResponseUnmarshallModeStrict
		return &m
	}
	return nil
}

// CompositeObject renders the CompositeController API object for cfg.
func (cfg *CtlConfig) CompositeObject(sim *vs.Server) *v1alpha1.CompositeController {
	pd := sim.Def(cfg.ParentResource)
	cc := &v1alpha1.CompositeController{
		TypeMeta:   metav1.TypeMeta{APIVersion: "metacontroller.k8s.io/v1alpha1", Kind: "CompositeController"},
		ObjectMeta: metav1.ObjectMeta{Name: cfg.Name, UID: "cc-uid-" + "0001"},
	}
	cc.Spec.ParentResource.APIVersion = pd.APIVersion()
	cc.Spec.ParentResource.Resource = pd.Resource
	if len(cfg.FieldPaths) > 0 {
		cc.Spec.ParentResource.RevisionHistory = &v1alpha1.CompositeControllerRevisionHistory{FieldPaths: cfg.FieldPaths}
	} else if cfg.EmptyRevisionHistory == 1 {
		// "revisionHistory: {}" and "fieldPaths: []" mean the same as leaving the block out
		cc.Spec.ParentResource.RevisionHistory = &v1alpha1.CompositeControllerRevisionHistory{}
	} else if cfg.EmptyRevisionHistory == 2 {
		cc.Spec.ParentResource.RevisionHistory = &v1alpha1.CompositeControllerRevisionHistory{FieldPaths: []string{}}
	}
	if cfg.ParentSelector != nil {
		cc.Spec.ParentResource.LabelSelector = cfg.labelSelector(cfg.ParentSelector)
	}
	if cfg.IgnoreStatus {
		cc.Spec.ParentResource.IgnoreStatusChanges = boolp(true)
	}
	if cfg.GenerateSelector {
		cc.Spec.GenerateSelector = boolp(true)
	}
	for _, ch := range cfg.Children {
		d := sim.Def(ch.Resource)
		rule := v1alpha1.CompositeControllerChildResourceRule{ResourceRule: v1alpha1.ResourceRule{APIVersion: d.APIVersion(), Resource: d.Resource}}
		if !ch.NoStrat {
			st := &v1alpha1.CompositeControllerChildUpdateStrategy{Method: v1alpha1.ChildUpdateMethod(ch.Method)}
			for _, c := range ch.Checks {
				st.StatusChecks.Conditions = append(st.StatusChecks.Conditions, v1alpha1.StatusConditionCheck{Type: c.Type, Status: c.Status, Reason: c.Reason})
			}
			rule.UpdateStrategy = st
		}
		cc.Spec.ChildResources = append(cc.Spec.ChildResources, rule)
	}
	cc.Spec.Hooks = &v1alpha1.CompositeControllerHooks{}
	if cfg.SyncHook {
		cc.Spec.Hooks.Sync = webhook(SyncURL, cfg)
	}
	if cfg.FinalizeHook {
		cc.Spec.Hooks.Finalize = webhook(FinalizeURL, cfg)
	}
	if cfg.CustomizeHook {
		cc.Spec.Hooks.Customize = webhook(CustomizeURL, cfg)
	}
	return cc
}

// DecoratorObject renders the DecoratorController API object for cfg.
func (cfg *CtlConfig) DecoratorObject(sim *vs.Server) *v1alpha1.DecoratorController {
	dc := &v1alpha1.DecoratorController{
		TypeMeta:   metav1.TypeMeta{APIVersion: "metacontroller.k8s.io/v1alpha1", Kind: "DecoratorController"},
		ObjectMeta: metav1.ObjectMeta{Name: cfg.Name, UID: "dc-uid-" + "0001"},
	}
	prs := cfg.ParentResources
	if len(prs) == 0 {
		prs = []string{cfg.ParentResource}
	}
	if cfg.TwinParent != "" {
		td := sim.Def(TwinName(cfg.ParentResource))
		rule := v1alpha1.DecoratorControllerResourceRule{ResourceRule: v1alpha1.ResourceRule{APIVersion: td.APIVersion(), Resource: td.Resource}}
		if cfg.TwinParent == "ignores" {
			rule.IgnoreStatusChanges = boolp(true)
		}
		dc.Spec.Resources = append(dc.Spec.Resources, rule)
	}
	for _, pr := range prs {
		pd := sim.Def(pr)
		rule := v1alpha1.DecoratorControllerResourceRule{ResourceRule: v1alpha1.ResourceRule{APIVersion: pd.APIVersion(), Resource: pd.Resource}}
		if cfg.ParentSelector != nil {
			rule.LabelSelector = cfg.labelSelector(cfg.ParentSelector)
		}
		if cfg.ParentAnnSel != nil {
			ls := cfg.labelSelector(cfg.ParentAnnSel)
			rule.AnnotationSelector = &v1alpha1.AnnotationSelector{MatchAnnotations: ls.MatchLabels, MatchExpressions: ls.MatchExpressions}
		}
		if cfg.IgnoreStatus {
			rule.IgnoreStatusChanges = boolp(true)
		}
		dc.Spec.Resources = append(dc.Spec.Resources, rule)
	}
	for _, ch := range cfg.Children {
		d := sim.Def(ch.Resource)
		rule := v1alpha1.DecoratorControllerAttachmentRule{ResourceRule: v1alpha1.ResourceRule{APIVersion: d.APIVersion(), Resource: d.Resource}}
		if !ch.NoStrat {
			rule.UpdateStrategy = &v1alpha1.DecoratorControllerAttachmentUpdateStrategy{Method: v1alpha1.ChildUpdateMethod(ch.Method)}
		}
		dc.Spec.Attachments = append(dc.Spec.Attachments, rule)
	}
	dc.Spec.Hooks = &v1alpha1.DecoratorControllerHooks{}
	if cfg.SyncHook {
		dc.Spec.Hooks.Sync = webhook(SyncURL, cfg)
	}
	if cfg.FinalizeHook {
		dc.Spec.Hooks.Finalize = webhook(FinalizeURL, cfg)
	}
	if cfg.CustomizeHook {
		dc.Spec.Hooks.Customize = webhook(CustomizeURL, cfg)
	}
	return dc
}

// TwinName is the harness name of the twin of a parent resource (same plural and kind, API group twin.io).
func TwinName(resource string) string { return "twin-" + resource }

// TwinDef builds the definition of that twin from the universe's definition of the resource.
func TwinDef(resource string) *vs.ResourceDef {
	for _, d := range Universe() {
		if d.Resource == resource {
			t := *d
			t.Group = "twin.io"
			t.Alias = TwinName(resource)
			return &t
		}
	}
	panic("verifworld: no such resource " + resource)
}

// FinalizerName is the finalizer the controller manages on parents.
func (cfg *CtlConfig) FinalizerName() string {
	if cfg.Kind == "decorator" {
		return "metacontroller.io/decoratorcontroller-" + cfg.Name
	}
	return "metacontroller.io/compositecontroller-" + cfg.Name
}

// MethodOf returns the configured update method for a child resource
// ("" when unset).
func (cfg *CtlConfig) MethodOf(resource string) string {
	for _, ch := range cfg.Children {
		if ch.Resource == resource {
			if ch.NoStrat {
				return ""
			}
			return ch.Method
		}
	}
	return ""
}

func (cfg *CtlConfig) ChildCfgOf(resource string) *ChildCfg {
	for i := range cfg.Children {
		if cfg.Children[i].Resource == resource {
			return &cfg.Children[i]
		}
	}
	return nil
}

func (cfg *CtlConfig) String() string {
	return fmt.Sprintf("%s/%s parent=%s children=%v gensel=%v finalize=%v ssa=%v", cfg.Kind, cfg.Name, cfg.ParentResource, cfg.Children, cfg.GenerateSelector, cfg.FinalizeHook, cfg.SSA)
}

// Controller is the adapter interface implemented in-package by the composite
// and decorator harness files.
type Controller interface {
	// Sync runs one sync of the parent with the given queue key.
	Sync(key string) error
	// Process runs the controller's own work-queue step for key
	// (sync + AddRateLimited/Forget bookkeeping).
	Process(key string)
	// KeyFor returns the queue key the controller uses for a parent.
	KeyFor(parent map[string]any) string
}

// Factory builds a controller over a world.
type Factory func(w *World, cfg *CtlConfig) (Controller, error)

// EventSink lets the harness deliver watch events straight to the controller's
// handlers (workers disabled; the recording queue shows what was enqueued).
// Objects are *unstructured.Unstructured or cache.DeletedFinalStateUnknown.
type EventSink interface {
	ParentAdd(obj any)
	ParentUpdate(old, cur any)
	ParentDelete(obj any)
	ChildAdd(obj any)
	ChildUpdate(old, cur any)
	ChildDelete(obj any)
	RelatedAdd(obj any)
	RelatedUpdate(old, cur any)
	RelatedDelete(obj any)
	// ParseKey maps a queue key back to (namespace, name) of the parent it denotes.
	ParseKey(key string) (ns, name string, err error)
}
