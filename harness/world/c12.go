package verifworld

import (
	"encoding/json"
	"fmt"
	"net/http"
	"sort"
	"strings"
	"time"

	vs "metacontroller/pkg/internal/verifsim"
)

// FaultSpec is one injected failure.
type FaultSpec struct {
	Target string `json:"target"` // api | hook | none
	Index  int    `json:"index"`  // request index within the work sync / hook call index
	Kind   string `json:"kind"`   // api: race e410 e422 e500 timeout-before timeout-after; hook: h500 h429 refused garbage
}

var apiFaultKinds = []string{"race", "e410", "e422", "e500", "timeout-before", "timeout-after", "e404", "e409"}
var hookFaultKinds = []string{"h500", "h429", "refused", "garbage"}

// c12Scenario builds one of the scenario shapes used for fault enumeration.
func c12Scenario(c *vs.Case, kind string, fixed bool) *Scn {
	if !fixed {
		s := GenScn(c, GenOpts{Kind: kind, AllowRolling: kind == "composite", AllowFinalize: false, ClusterParent: 1, MaxChildKinds: 2})
		s.Cfg.SSA = false
		s.Prog.Ordered = false
		if kind == "composite" && c.Prob(1, 6) {
			for i := range s.Cfg.Children {
				if strings.HasPrefix(s.Cfg.Children[i].Method, "Rolling") {
					s.Cfg.Children[i].Method = "InPlace" // rolling + server-side apply stalls (known finding of C01)
				}
			}
			for i := range s.Prog.Children {
				// a hook that hands metacontroller's own last-applied annotation back would itself re-apply what the
				// migration removes: the end state then depends on the path taken, fault or no fault
				s.Prog.Children[i].EchoAnnotations = false
			}
			s.SwitchToSSA = true
			c.Class("switch-to-server-side-apply")
		}
		return s
	}
	method := c.PickStr("InPlace", "Recreate", "OnDelete", "RollingInPlace")
	if kind == "decorator" && method == "RollingInPlace" {
		method = "InPlace"
	}
	s := FixedScn("widgets", method, []string{"w0", "w1", "w2"}, 2)
	s.Cfg.Kind = kind
	if c.Bool() {
		s.Cfg.Children = append(s.Cfg.Children, ChildCfg{Resource: "configmaps", Method: "InPlace"})
		s.Prog.Children = append(s.Prog.Children, ChildTpl{Resource: "configmaps", Names: []string{"c0", "c1"}, Labels: map[string]string{"app": "p1"},
			Fields: map[string]any{"data": map[string]any{"v": "$p:spec.template.v"}}})
	}
	if s.DeleteParent = c.Int(3); s.DeleteParent > 0 {
		// the parent is being deleted: the faulted sync is a finalize sync
		s.Cfg.FinalizeHook = true
		s.Prog.FinalizeMode = 0
		s.Prog.FinalizedMode = 0
	}
	if c.Bool() {
		// a customize hook selects related objects; its calls can fail like any other hook call
		s.Cfg.CustomizeHook = true
		s.Prog.Related = []map[string]any{{"apiVersion": "v1", "resource": "configmaps", "labelSelector": map[string]any{"matchLabels": map[string]any{"rel": "yes"}}}}
	}
	if kind == "decorator" {
		s.SelLabels = map[string]string{}
		s.Prog.StatusMode = 0
		s.Prog.DecStatus = c.Int(3)
		v := "yes"
		s.Prog.Labels = map[string]*string{"decorated": &v}
	}
	return s
}

func canonicalStore(e *Env) string { return canonicalStoreSkip(e, nil) }

// canonicalStoreSkip leaves out one object (kind/namespace/name id): an outside
// writer that removed or created a bystander changed the world by itself.
func canonicalStoreSkip(e *Env, skip map[string]bool) string {
	var objs []any
	res := append([]string{e.Scn.Cfg.ParentResource, "controllerrevisions"}, e.ChildResources()...)
	for _, r := range res {
		for _, o := range e.W.Sim.ListAll(r) {
			if skip[ObjID(o)] {
				continue
			}
			c := vs.CopyMap(o)
			m := c["metadata"].(map[string]any)
			for _, k := range []string{"uid", "resourceVersion", "creationTimestamp", "managedFields", "generation"} {
				delete(m, k)
			}
			if l, ok := m["labels"].(map[string]any); ok {
				delete(l, "touched")
				if len(l) == 0 {
					delete(m, "labels")
				}
			}
			refs, _ := m["ownerReferences"].([]any)
			for _, rf := range refs {
				if rm, ok := rf.(map[string]any); ok {
					delete(rm, "uid")
				}
			}
			if st, ok := c["status"].(map[string]any); ok {
				delete(st, "observedGeneration")
			}
			if r == "controllerrevisions" {
				// names are hashes over the parent UID: keep only patch and claims
				kids, _ := c["children"].([]any)
				for _, k := range kids {
					if km, ok := k.(map[string]any); ok {
						if ns, ok := km["names"].([]any); ok {
							sort.Slice(ns, func(i, j int) bool { return fmt.Sprint(ns[i]) < fmt.Sprint(ns[j]) })
						}
					}
				}
				sort.Slice(kids, func(i, j int) bool { return canon(kids[i]) < canon(kids[j]) })
				c = map[string]any{"kind": "ControllerRevision", "parentPatch": c["parentPatch"], "children": kids}
			}
			objs = append(objs, c)
		}
	}
	b, _ := json.Marshal(objs)
	return string(b)
}

type c12Run struct {
	Work      *SyncTrace
	Final     string
	Related   string // the related map of the last sync/finalize hook call
	SawHook   bool
	HookCalls int
	Env       *Env
}

// runC12 executes: setup, perturbation, the work step (with the fault), recovery.
func runC12(scn *Scn, f Factory, seedTrace []int, fault FaultSpec, extra []FaultSpec) (*c12Run, *Env, error) {
	env, err := NewEnv(scn, f)
	if err != nil {
		return nil, nil, fmt.Errorf("harness: %v", err)
	}
	for i := 0; i < 2; i++ {
		if t := env.SyncFresh(); t.Panic != "" {
			return nil, env, vs.Violf("C12/panic", "panic during setup: %s", t.Panic)
		}
	}
	if scn.SwitchToSSA {
		scn.Cfg.SSA = true
		if err := env.Restart(); err != nil {
			return nil, nil, fmt.Errorf("harness: %v", err)
		}
	}
	// perturbation: the work step then has content updates, a delete, a create, an adoption and a release
	for i := range scn.Prog.Children {
		fl := scn.Prog.Children[i].Fields
		for _, k := range []string{"spec", "data"} {
			if m, ok := fl[k].(map[string]any); ok {
				m["added"] = "new"
			}
		}
		if len(scn.Prog.Children[i].Names) > 1 {
			scn.Prog.Children[i].Names = append(scn.Prog.Children[i].Names[1:], "fresh"+fmt.Sprint(i))
		}
	}
	if scn.Cfg.Kind == "composite" && len(seedTrace) > 0 {
		sc := vs.NewReplayCase(seedTrace)
		SeedStore(sc, env, SeedOpts{Max: 3})
	}
	if scn.Cfg.CustomizeHook {
		for _, n := range []string{"rel-a", "rel-b"} {
			env.W.Sim.ExtCreate("configmaps", map[string]any{"apiVersion": "v1", "kind": "ConfigMap", "metadata": map[string]any{"name": n, "namespace": "ns1", "labels": map[string]any{"rel": "yes"}}, "data": map[string]any{"k": n}})
		}
	}
	if scn.DeleteParent > 0 {
		env.W.Sim.ExtDelete(scn.Cfg.ParentResource, scn.ParentNS(), scn.ParentName(), "")
		for i := 1; i < scn.DeleteParent; i++ {
			if t := env.SyncFresh(); t.Panic != "" {
				return nil, env, vs.Violf("C12/panic", "panic during setup: %s", t.Panic)
			}
		}
	}
	run := &c12Run{}
	hookCalls := 0
	install := func(fs []FaultSpec) {
		count := 0
		env.W.Sim.Before = func(r *vs.Request) *vs.Fault {
			idx := count
			count++
			for _, fa := range fs {
				if fa.Target != "api" || fa.Index != idx {
					continue
				}
				switch fa.Kind {
				case "race":
					ns := r.Namespace
					switch r.Verb {
					case "create":
						if r.Body != nil {
							b := vs.CopyMap(r.Body)
							if metaStr(b, "namespace") == "" && r.Def.Namespaced {
								b["metadata"].(map[string]any)["namespace"] = ns
							}
							env.W.Sim.ExtCreate(r.Def.Resource, b)
						}
					case "update", "patch":
						env.W.Sim.ExtUpdate(r.Def.Resource, ns, r.Name, func(o map[string]any) {
							metaOfMap(o)["labels"].(map[string]any)["touched"] = "x"
						})
					case "delete", "get":
						if r.Def.Resource != scn.Cfg.ParentResource {
							env.W.Sim.Purge(r.Def.Resource, ns, r.Name)
						} else {
							env.W.Sim.ExtUpdate(r.Def.Resource, ns, r.Name, func(o map[string]any) {
								metaOfMap(o)["labels"].(map[string]any)["touched"] = "x"
							})
						}
					}
					return nil
				case "e404":
					return &vs.Fault{Code: 404, Reason: "NotFound", Message: "injected"}
				case "e409":
					return &vs.Fault{Code: 409, Reason: "Conflict", Message: "injected"}
				case "e410":
					return &vs.Fault{Code: 410, Reason: "Gone", Message: "injected"}
				case "e422":
					return &vs.Fault{Code: 422, Reason: "Invalid", Message: "injected"}
				case "e500":
					return &vs.Fault{Code: 500, Reason: "InternalError", Message: "injected"}
				case "timeout-before":
					return &vs.Fault{Transport: fmt.Errorf("context deadline exceeded (injected, before commit)")}
				case "timeout-after":
					return &vs.Fault{AfterCommit: true, Transport: fmt.Errorf("context deadline exceeded (injected, after commit)")}
				}
			}
			return nil
		}
		orig := scn.Prog
		h := func(_ *http.Request, body []byte) HookResponse {
			idx := hookCalls
			hookCalls++
			for _, fa := range fs {
				if fa.Target != "hook" || fa.Index != idx {
					continue
				}
				switch fa.Kind {
				case "h500":
					return HookResponse{Code: 503, Body: []byte("unavailable")}
				case "h429":
					return HookResponse{Code: 429, Header: http.Header{"Retry-After": []string{"7"}}, Body: []byte("slow down")}
				case "refused":
					return HookResponse{Err: fmt.Errorf("dial tcp: connection refused")}
				case "garbage":
					return HookResponse{Code: 200, Body: []byte(`{"children": [ {"apiVersion": `)}
				}
			}
			req, err := vs.DecodeJSON(body)
			if err != nil {
				return HookResponse{Code: 400}
			}
			var resp map[string]any
			if scn.Cfg.Kind == "decorator" {
				resp = orig.EvalDecorator(env.W.Sim, req)
			} else {
				resp = orig.EvalComposite(env.W.Sim, req)
			}
			b, _ := json.Marshal(resp)
			return HookResponse{Code: 200, Body: b}
		}
		env.W.Hooks.Handle(SyncURL, h)
		env.W.Hooks.Handle(FinalizeURL, h)
		if scn.Cfg.CustomizeHook {
			env.W.Hooks.Handle(CustomizeURL, func(r *http.Request, body []byte) HookResponse {
				idx := hookCalls
				hookCalls++
				for _, fa := range fs {
					if fa.Target == "hook" && fa.Index == idx {
						hookCalls--
						return h(r, body) // same failure kinds
					}
				}
				req, _ := vs.DecodeJSON(body)
				b, _ := json.Marshal(orig.EvalCustomize(req))
				return HookResponse{Code: 200, Body: b}
			})
		}
	}
	var fs []FaultSpec
	if fault.Target != "none" {
		fs = append(fs, fault)
	}
	fs = append(fs, extra...)
	install(fs)
	env.W.SyncAll()
	run.Work = env.Process()
	run.HookCalls = hookCalls
	env.W.Sim.Before = nil
	scn.Prog.Install(env.W, scn.Cfg.Kind)
	if run.Work.Panic != "" {
		return run, env, vs.Violf("C12/panic", "panic in the faulted sync: %s", run.Work.Panic)
	}
	noteRelated(run, run.Work)
	// recovery: fault-free syncs driven like the queue would (requeue / events)
	n := len(scn.Prog.DesiredAll(env.W.Sim, env.Parent()))
	for i := 0; i < 2*n+6; i++ {
		env.W.SyncAll()
		t := env.Process()
		if t.Panic != "" {
			return run, env, vs.Violf("C12/panic", "panic during recovery: %s", t.Panic)
		}
		noteRelated(run, t)
	}
	run.Final = canonicalStore(env)
	run.Env = env
	return run, env, nil
}

// noteRelated remembers which related objects the last sync/finalize hook call was shown.
func noteRelated(run *c12Run, t *SyncTrace) {
	for _, h := range t.Hooks {
		if h.URL == CustomizeURL || h.Request == nil {
			continue
		}
		var ids []string
		groups, _ := h.Request["related"].(map[string]any)
		for g, objs := range groups {
			om, _ := objs.(map[string]any)
			for k, o := range om {
				obj, _ := o.(map[string]any)
				ids = append(ids, fmt.Sprintf("%s/%s data=%s", g, k, canon(obj["data"])))
			}
		}
		sort.Strings(ids)
		run.Related = strings.Join(ids, " ")
		run.SawHook = true
	}
}

func queueOps(t *SyncTrace) (rateLimited, forgot bool, after time.Duration, hasAfter bool) {
	for _, q := range t.Queue {
		switch q.Op {
		case "AddRateLimited":
			rateLimited = true
		case "Forget":
			forgot = true
		case "AddAfter":
			hasAfter = true
			after = q.Delay
		}
	}
	return
}

// PropC12: failures are retried, benign races tolerated, one bad child blocks nothing.
func PropC12(c *vs.Case, f Factory, kind string, fixed bool) error {
	scn := c12Scenario(c, kind, fixed)
	seedN := 0
	if kind == "composite" {
		seedN = 24
	}
	seedTrace := make([]int, seedN)
	for i := range seedTrace {
		if fixed {
			seedTrace[i] = (i*7 + 3) % 5
		} else {
			seedTrace[i] = c.Int(8)
		}
	}
	var fault FaultSpec
	var extra []FaultSpec
	c.Describe(func() any {
		return map[string]any{"scenario": scn, "fault": fault, "extraFaults": extra, "seedTrace": seedTrace}
	})
	progCopy := func() *Scn {
		b, _ := json.Marshal(scn)
		var s Scn
		_ = json.Unmarshal(b, &s)
		normalizeScn(&s)
		return &s
	}
	if !fixed && c.Prob(1, 10) {
		// an outage: the hook (or the API server, at the first request of the sync) fails for many syncs in a row
		return c12Outage(c, progCopy(), f)
	}
	base, baseEnv, err := runC12(progCopy(), f, seedTrace, FaultSpec{Target: "none"}, nil)
	if err != nil {
		return err
	}
	var apiIdx []int
	for i, r := range base.Work.Reqs {
		if r.Actor == "controller" {
			apiIdx = append(apiIdx, i)
		}
	}
	nAPI := len(apiIdx) * len(apiFaultKinds)
	nHook := base.HookCalls * len(hookFaultKinds)
	if nAPI+nHook == 0 {
		return nil
	}
	pick := c.Int(nAPI + nHook)
	if pick < nAPI {
		fault = FaultSpec{Target: "api", Index: pick / len(apiFaultKinds), Kind: apiFaultKinds[pick%len(apiFaultKinds)]}
	} else {
		p := pick - nAPI
		fault = FaultSpec{Target: "hook", Index: p / len(hookFaultKinds), Kind: hookFaultKinds[p%len(hookFaultKinds)]}
	}
	if !fixed && nAPI > 0 && c.Prob(1, 4) {
		// random multi-fault sequence: one more fault later in the same sync
		k := c.Int(nAPI)
		extra = append(extra, FaultSpec{Target: "api", Index: k / len(apiFaultKinds), Kind: apiFaultKinds[k%len(apiFaultKinds)]})
		c.Class("multi-fault")
	}
	c.Class("fault:%s/%s", fault.Target, fault.Kind)
	got, env, err := runC12(progCopy(), f, seedTrace, fault, extra)
	if err != nil {
		return err
	}
	t := got.Work
	// did the fault hit?
	var hit *vs.Request
	if fault.Target == "api" {
		if fault.Index < len(t.Reqs) {
			hit = t.Reqs[fault.Index]
		}
	}
	c.NonTrivial()
	rateLimited, forgot, after, hasAfter := queueOps(t)
	key := env.ParentKey()
	_ = key
	expectErr, either := false, false
	why := ""
	switch {
	case len(extra) > 0:
		either = true
	case fault.Target == "hook":
		switch {
		case fault.Kind == "h429" && kind == "composite":
			why = "hook 429 on a composite controller"
			if !hasAfter || after != 7*time.Second {
				return withTrace(vs.Violf("C12/429-not-requeued-after-delay", "the hook answered 429 with Retry-After: 7 but the queue saw %v", t.Queue), t)
			}
			if rateLimited {
				return withTrace(vs.Violf("C12/429-counted-as-error", "the hook answered 429 (composite) but the parent was requeued with back-off as for an error: %v", t.Queue), t)
			}
		default:
			expectErr = true
			why = "hook failure " + fault.Kind
		}
	case hit == nil:
		either = true
	case fault.Kind == "race":
		child := hit.Def.Resource != scn.Cfg.ParentResource && hit.Def.Resource != "controllerrevisions"
		switch {
		case child && (hit.Verb == "delete" || hit.Verb == "create" || hit.Verb == "update" || hit.Verb == "get"):
			why = "benign race on child " + hit.Verb
		case hit.Def.Resource == scn.Cfg.ParentResource && hit.Verb == "update":
			why = "optimistic-lock conflict on a parent update"
		default:
			either = true
		}
	case fault.Kind == "e409":
		// a conflict is documented as benign for updates (the object moved on, a new event follows); a DELETE
		// or CREATE of a child that is refused with 409 is a failure like any other
		child := hit.Def.Resource != scn.Cfg.ParentResource && hit.Def.Resource != "controllerrevisions"
		if child && hit.Verb == "delete" {
			expectErr = true
			why = "409 on " + hit.String()
		} else {
			either = true
		}
	case fault.Kind == "e410", fault.Kind == "e404":
		either = true
	default:
		expectErr = true
		why = fault.Kind + " on " + hit.String()
	}
	if !either {
		if expectErr {
			if !rateLimited || forgot {
				return withTrace(vs.Violf("C12/failure-not-requeued", "%s: the parent must be requeued with back-off and not forgotten, but the queue saw %v (sync error: %v)", why, t.Queue, t.Err), t)
			}
		} else if fault.Kind != "h429" {
			if rateLimited {
				return withTrace(vs.Violf("C12/benign-race-reported-as-error", "%s must be tolerated, but the sync failed (queue %v)", why, t.Queue), t)
			}
		}
	}
	// a 404 answered to a read of the parent itself (the uncached recheck before an adoption, the read
	// before a finalizer or status write): either the sync is retried, or it still did everything the
	// fault-free sync does apart from the parent's own writes - work is never dropped silently
	if fault.Target == "api" && fault.Kind == "e404" && hit != nil && len(extra) == 0 && hit.Verb == "get" && hit.Def.Resource == scn.Cfg.ParentResource && !rateLimited && !hasAfter {
		for _, br := range base.Work.Reqs {
			if !br.Mutating() || !br.Accepted() || br.Def.Resource == scn.Cfg.ParentResource {
				continue
			}
			found := false
			for _, gr := range t.Reqs {
				if gr.Verb == br.Verb && gr.Def.Resource == br.Def.Resource && gr.Name == br.Name && gr.Namespace == br.Namespace {
					found = true
				}
			}
			if !found {
				return withTrace(vs.Violf("C12/work-dropped-without-retry", "%s was answered 404; the sync neither reported an error nor asked for a retry (queue %v), yet it skipped %s, which the fault-free sync issues", hit.String(), t.Queue, br.String()), t)
			}
		}
	}
	// isolation: a failure on one child write does not swallow the other children's requests nor the status write
	if fault.Target == "api" && hit != nil && len(extra) == 0 && fault.Index < len(base.Work.Reqs) {
		bhit := base.Work.Reqs[fault.Index]
		if isChildWrite(env, bhit) && bhit.Verb == hit.Verb && bhit.Name == hit.Name {
			c.Class("isolation-judged")
			for _, br := range base.Work.Reqs[fault.Index+1:] {
				if !br.Mutating() || br.Def.Resource == "controllerrevisions" {
					continue
				}
				if br.Def.Resource == bhit.Def.Resource && br.Name == bhit.Name && br.Namespace == bhit.Namespace {
					continue
				}
				found := false
				for _, gr := range t.Reqs {
					if gr.Verb == br.Verb && gr.Def.Resource == br.Def.Resource && gr.Name == br.Name && gr.Namespace == br.Namespace && gr.Subresource == br.Subresource {
						found = true
					}
				}
				if !found {
					return withTrace(vs.Violf("C12/failure-blocked-other-work", "a failure on %s made the sync skip %s, which the fault-free sync issues", hit.String(), br.String()), t)
				}
			}
		}
	}
	// convergence after the faults stop
	skip := map[string]bool{}
	for _, fa := range append([]FaultSpec{fault}, extra...) {
		if fa.Target != "api" || fa.Kind != "race" || fa.Index >= len(t.Reqs) {
			continue
		}
		// the racing outside writer touched this object itself; compare everything else
		h := t.Reqs[fa.Index]
		if h.Def.Resource == scn.Cfg.ParentResource {
			continue
		}
		id := objIDOf(h.Def.Kind, h.Def.APIVersion(), h.Namespace, h.Name)
		if h.Verb == "create" && h.Body != nil {
			id = objIDOf(h.Def.Kind, h.Def.APIVersion(), h.Namespace, metaStr(h.Body, "name"))
		}
		skip[id] = true
	}
	if len(skip) > 0 {
		got.Final = canonicalStoreSkip(env, skip)
		base.Final = canonicalStoreSkip(baseEnv, skip)
	}
	if scn.Cfg.CustomizeHook && got.SawHook && base.SawHook && got.Related != base.Related && len(skip) == 0 {
		return withTrace(vs.Violf("C12/related-differs-after-fault", "after fault %+v and the recovery syncs the hook is shown other related objects than in the fault-free run\nfault-free: %s\nfaulted:    %s", fault, clip(base.Related), clip(got.Related)), t)
	}
	if got.Final != base.Final {
		return withTrace(vs.Violf("C12/no-convergence-after-fault", "after fault %+v (further faults %v) and the recovery syncs the cluster differs from the fault-free run\n%s", fault, extra, diffWindow(base.Final, got.Final)), t)
	}
	if v := env.SharedStateViolation(); v != nil {
		return v
	}
	return nil
}

// diffWindow shows where two canonical encodings start to differ.
func diffWindow(a, b string) string {
	i := 0
	for i < len(a) && i < len(b) && a[i] == b[i] {
		i++
	}
	from := i - 250
	if from < 0 {
		from = 0
	}
	end := func(s string) int {
		if i+350 < len(s) {
			return i + 350
		}
		return len(s)
	}
	return fmt.Sprintf("first difference at byte %d\n  fault-free: ...%s\n  faulted:    ...%s", i, a[from:end(a)], b[from:end(b)])
}

func clip(s string) string {
	if len(s) > 1800 {
		return s[:1800] + "..."
	}
	return s
}

// normalizeScn restores Go types lost by a JSON round trip of a scenario.
func normalizeScn(s *Scn) {
	var fix func(v any) any
	fix = func(v any) any {
		switch t := v.(type) {
		case map[string]any:
			for k, x := range t {
				t[k] = fix(x)
			}
			return t
		case []any:
			for i, x := range t {
				t[i] = fix(x)
			}
			return t
		case float64:
			if t == float64(int64(t)) {
				return int64(t)
			}
			return t
		}
		return v
	}
	fix(s.Parent)
	for i := range s.Prog.Children {
		fix(s.Prog.Children[i].Fields)
	}
	sort.Strings(nil)
	_ = strings.TrimSpace
}

// c12Outage: however often a sync fails in a row, the parent stays scheduled for a retry with back-off.
func c12Outage(c *vs.Case, scn *Scn, f Factory) error {
	env, err := NewEnv(scn, f)
	if err != nil {
		return fmt.Errorf("harness: %v", err)
	}
	for i := 0; i < 2; i++ {
		if t := env.SyncFresh(); t.Panic != "" {
			return vs.Violf("C12/panic", "panic during setup: %s", t.Panic)
		}
	}
	// something to do: the parent changes
	env.W.Sim.ExtUpdate(scn.Cfg.ParentResource, scn.ParentNS(), scn.ParentName(), func(o map[string]any) {
		o["spec"].(map[string]any)["other"] = "changed-during-outage"
	})
	apiOutage := c.Bool()
	n := 6 + c.Int(6)
	c.Class("outage-of-%d-syncs", n)
	c.NonTrivial()
	if apiOutage {
		env.W.Sim.Before = func(r *vs.Request) *vs.Fault {
			if r.Mutating() {
				return &vs.Fault{Code: 500, Reason: "InternalError", Message: "injected outage"}
			}
			return nil
		}
	} else {
		h := func(_ *http.Request, _ []byte) HookResponse {
			return HookResponse{Code: 503, Body: []byte("unavailable")}
		}
		env.W.Hooks.Handle(SyncURL, h)
		env.W.Hooks.Handle(FinalizeURL, h)
	}
	for i := 1; i <= n; i++ {
		env.W.SyncAll()
		t := env.Process()
		if t.Panic != "" {
			return vs.Violf("C12/panic", "panic during the outage: %s", t.Panic)
		}
		failed := false
		for _, h := range t.Hooks {
			if h.Response.Code == 503 {
				failed = true
			}
		}
		for _, r := range t.Reqs {
			if r.Injected {
				failed = true
			}
		}
		if !failed {
			continue // nothing of this sync was hit (e.g. no write was needed)
		}
		rateLimited, forgot, _, _ := queueOps(t)
		if !rateLimited || forgot {
			return withTrace(vs.Violf("C12/failure-not-requeued", "failed sync number %d in a row (outage of the %s): the parent must be requeued with back-off and not forgotten, but the queue saw %v", i, map[bool]string{true: "API server", false: "webhook"}[apiOutage], t.Queue), t)
		}
	}
	env.W.Sim.Before = nil
	scn.Prog.Install(env.W, scn.Cfg.Kind)
	for i := 0; i < 4; i++ {
		env.W.SyncAll()
		if t := env.Process(); t.Panic != "" {
			return vs.Violf("C12/panic", "panic after the outage: %s", t.Panic)
		}
	}
	return nil
}
