package verifworld

import (
	"context"
	"fmt"
	"sort"
	"strings"
	"time"

	"metacontroller/pkg/apis/metacontroller/v1alpha1"
	vs "metacontroller/pkg/internal/verifsim"

	metav1 "k8s.io/apimachinery/pkg/apis/meta/v1"
)

// callsAboutSince counts hook calls to a URL prefix about the named parent after a point in time.
func (h *HookRouter) callsAboutSince(prefix, parentName string, since time.Time) (int, map[string]any) {
	h.mu.Lock()
	defer h.mu.Unlock()
	n := 0
	var last map[string]any
	for _, c := range h.Calls {
		if !strings.HasPrefix(c.URL, prefix) || !c.At.After(since) {
			continue
		}
		for _, k := range []string{"parent", "object"} {
			if p, ok := c.Body[k].(map[string]any); ok && metaStr(p, "name") == parentName {
				n++
				last = c.Body
			}
		}
	}
	return n, last
}

// PropC15Live drives a hosted controller the way metacontroller itself does (Reconcile -> Start,
// real shared informers, the customize manager registering its own event handlers) and checks the
// last clause of C15 on that path: every object that appears in a parent's related map wakes that
// parent when it is created, changed or deleted. The rule names a generated resource - including
// the controller's own parent resource (peers of the parent) and its child resource, for which
// the controller already holds an informer of its own.
func PropC15Live(c *vs.Case, kind string, env *C20Env, drv C20Driver) error {
	relRes := c.PickStr("gadgets", "things", "things", "widgets", "configmaps")
	byLabel := c.Bool()
	nOps := 2 + c.Int(4)
	var log []string
	c.Describe(func() any {
		return map[string]any{"kind": kind, "relatedResource": relRes, "ruleByLabel": byLabel, "ops": log}
	})
	d := env.W.Sim.Def(relRes)
	rule := map[string]any{"apiVersion": d.APIVersion(), "resource": relRes}
	if byLabel {
		rule["labelSelector"] = map[string]any{"matchLabels": map[string]any{"rel": "yes"}}
	}
	env.Router.mu.Lock()
	env.Router.Answer = func(u string, body map[string]any) map[string]any {
		if strings.HasSuffix(u, "/customize") {
			return map[string]any{"relatedResources": []any{rule}}
		}
		return nil
	}
	env.Router.mu.Unlock()
	defer func() {
		env.Router.mu.Lock()
		env.Router.Answer = nil
		env.Router.mu.Unlock()
	}()
	spec := c20Spec{Version: 1, Variant: "customize", Parent: "things", Child: "widgets", Valid: true}
	ctx := context.Background()
	if kind == "composite" {
		obj := spec.CompositeObj("live", nil)
		obj.SetGeneration(1)
		if err := env.K8s.Create(ctx, obj); err != nil {
			return fmt.Errorf("harness: %v", err)
		}
	} else {
		obj := spec.DecoratorObj("live", nil)
		obj.SetGeneration(1)
		if err := env.K8s.Create(ctx, obj); err != nil {
			return fmt.Errorf("harness: %v", err)
		}
	}
	mk := func(name string, labeled bool) map[string]any {
		m := map[string]any{"name": name, "namespace": "ns1"}
		if labeled {
			m["labels"] = map[string]any{"rel": "yes"}
		}
		o := map[string]any{"apiVersion": d.APIVersion(), "kind": d.Kind, "metadata": m}
		if relRes != "configmaps" {
			o["spec"] = map[string]any{}
		}
		return o
	}
	if _, err := env.W.Sim.ExtCreate("things", map[string]any{"apiVersion": "ex.io/v1", "kind": "Thing", "metadata": map[string]any{"name": "pre", "namespace": "ns1"}, "spec": map[string]any{}}); err != nil {
		return fmt.Errorf("harness: %v", err)
	}
	// related objects: name -> selected by the rule
	selected := map[string]bool{}
	exists := map[string]bool{}
	if relRes == "things" {
		exists["pre"] = true
		selected["pre"] = !byLabel
	}
	create := func(name string, labeled bool) {
		env.W.Sim.ExtCreate(relRes, mk(name, labeled))
		exists[name] = true
		selected[name] = labeled || !byLabel
	}
	create("rel-0", true)
	if err := drv.Reconcile("live"); err != nil {
		return fmt.Errorf("harness: reconcile: %v", err)
	}
	defer func() {
		if kind == "composite" {
			_ = env.K8s.Delete(ctx, &v1alpha1.CompositeController{ObjectMeta: metav1.ObjectMeta{Name: "live"}})
		} else {
			_ = env.K8s.Delete(ctx, &v1alpha1.DecoratorController{ObjectMeta: metav1.ObjectMeta{Name: "live"}})
		}
		func() {
			defer func() { _ = recover() }()
			_ = drv.Reconcile("live")
		}()
	}()
	prefix := spec.urlPrefix("live") + "sync"
	relatedNames := func(body map[string]any) []string {
		var out []string
		rel, _ := body["related"].(map[string]any)
		for _, grp := range rel {
			objs, _ := grp.(map[string]any)
			for _, o := range objs {
				om, _ := o.(map[string]any)
				if metaStr(om, "namespace") == "ns1" {
					out = append(out, metaStr(om, "name"))
				}
			}
		}
		sort.Strings(out)
		return out
	}
	wantNames := func() []string {
		var out []string
		for n, e := range exists {
			if e && selected[n] {
				out = append(out, n)
			}
		}
		sort.Strings(out)
		return out
	}
	// settle: the parent has been synced with the right related map
	settled := func(since time.Time) (bool, []string) {
		var got []string
		ok := pollFor(5*time.Second, func() bool {
			n, last := env.Router.callsAboutSince(prefix, "pre", since)
			if n == 0 {
				return false
			}
			got = relatedNames(last)
			return fmt.Sprint(got) == fmt.Sprint(wantNames())
		})
		return ok, got
	}
	start := time.Time{}
	if ok, got := settled(start); !ok {
		if n, _ := env.Router.callsAboutSince(prefix, "pre", start); n == 0 {
			return vs.Violf("C20/running-controller-deaf", "the controller was started but never synced the existing parent")
		}
		return vs.Violf("C15/related-set-differs", "first syncs: the rule %v selects %v in ns1 but the hook was shown %v", rule, wantNames(), got)
	}
	for i := 0; i < nOps; i++ {
		// let the controller go quiet, so that a later call can only be due to the next change
		quiet := pollFor(3*time.Second, func() bool {
			t0 := time.Now().Add(-80 * time.Millisecond)
			n, _ := env.Router.callsAboutSince(prefix, "pre", t0)
			return n == 0
		})
		if !quiet {
			return fmt.Errorf("harness: the controller keeps syncing the parent without any change")
		}
		var names []string
		for n, e := range exists {
			if e && n != "pre" {
				names = append(names, n)
			}
		}
		sort.Strings(names)
		op := c.Int(3)
		if len(names) == 0 {
			op = 0
		}
		since := time.Now()
		must := false
		what := ""
		switch op {
		case 0:
			name := fmt.Sprintf("rel-%d", i+1)
			labeled := c.Bool()
			create(name, labeled)
			must = selected[name]
			what = fmt.Sprintf("create %s %s (labelled %v)", relRes, name, labeled)
		case 1:
			name := names[c.Int(len(names))]
			env.W.Sim.ExtUpdate(relRes, "ns1", name, func(o map[string]any) {
				m := o["metadata"].(map[string]any)
				an, _ := m["annotations"].(map[string]any)
				if an == nil {
					an = map[string]any{}
				}
				an["touched"] = fmt.Sprint(i)
				m["annotations"] = an
			})
			must = selected[name]
			what = fmt.Sprintf("update %s %s", relRes, name)
		case 2:
			name := names[c.Int(len(names))]
			env.W.Sim.ExtDelete(relRes, "ns1", name, "")
			must = selected[name]
			exists[name] = false
			what = fmt.Sprintf("delete %s %s", relRes, name)
		}
		log = append(log, what)
		if !must {
			c.Class("unselected-object-changed")
			time.Sleep(30 * time.Millisecond)
			continue
		}
		c.NonTrivial()
		c.Class("selected-%s-op-%d", relRes, op)
		woke := pollFor(5*time.Second, func() bool {
			n, _ := env.Router.callsAboutSince(prefix, "pre", since)
			return n > 0
		})
		if !woke {
			return vs.Violf("C15/related-object-does-not-wake-parent", "%s: the object is selected by the customize rule %v of parent ns1/pre (it is, or was, in its related map), but 5 s later the parent has not been synced again", what, rule)
		}
		if ok, got := settled(since); !ok {
			return vs.Violf("C15/related-set-differs", "after %s: the rule %v selects %v in ns1 but the hook was shown %v", what, rule, wantNames(), got)
		}
	}
	return nil
}
