package verifworld

import (
	"fmt"
	"os"
	"runtime/debug"
	"strings"
	"time"

	"metacontroller/pkg/controller/common"
	vs "metacontroller/pkg/internal/verifsim"
	"metacontroller/pkg/logging"

	"github.com/go-logr/logr"
	"github.com/go-logr/logr/funcr"
)

// Env is a world plus one controller and its scenario.
type Env struct {
	W         *World
	Scn       *Scn
	Ctl       Controller
	Factory   Factory
	ParentUID string
	Syncs     int
	// CacheViolations accumulates cache-mutation findings (C17 part 1).
	CacheViolations []string
	// QueueViolations: queue calls of a sync that name the synced parent by another key.
	QueueViolations []string
	// LateHookCalls: sync/finalize hook exchanges that completed after the sync that made them had returned.
	LateHookCalls []string
	runEnd        map[int]time.Time
	// OGStyle: how healthy children report status.observedGeneration:
	// 0 = their generation, 1 = not at all, 2 = as a string, 3 = constant 0.
	OGStyle int
	// CondStyle: how healthy children write their conditions: 0 bare type/status/reason,
	// 1 with RFC 3339 lastTransitionTime and message, 2 with a zone-less timestamp and, listed
	// first, another condition carrying an empty timestamp and a string observedGeneration.
	CondStyle int
}

func (e *Env) healthyOG(gen any) (any, bool) {
	switch e.OGStyle {
	case 1:
		return nil, false
	case 2:
		return fmt.Sprint(gen), true
	case 3:
		return int64(0), true
	}
	return gen, gen != nil
}

// NewEnv builds the world, installs the hook program, builds the controller
// and creates the parent.
func NewEnv(scn *Scn, f Factory) (*Env, error) {
	var extra []*vs.ResourceDef
	if scn.Cfg.TwinParent != "" {
		extra = append(extra, TwinDef(scn.Cfg.ParentResource))
	}
	w := NewWorldDiscovery(scn.Cfg.SubresourcesFirst, extra...)
	common.VerifResetSSACache()
	if scn.Cfg.SSA {
		w.Sim.TrackManagedFields = true
	}
	scn.Prog.Install(w, scn.Cfg.Kind)
	ctl, err := f(w, &scn.Cfg)
	if err != nil {
		return nil, err
	}
	e := &Env{W: w, Scn: scn, Ctl: ctl, Factory: f}
	p, err := w.Sim.ExtCreate(scn.Cfg.ParentResource, scn.Parent)
	if err != nil {
		return nil, fmt.Errorf("create parent: %v", err)
	}
	e.ParentUID = metaStr(p, "uid")
	return e, nil
}

// Restart models a process restart: same cluster, fresh clients, caches,
// controller object and process-wide memo state.
func (e *Env) Restart() error {
	w := NewWorldOn(e.W.Sim)
	common.VerifResetSSACache()
	w.Sim.Dead = false
	if e.Scn.Cfg.SSA {
		w.Sim.TrackManagedFields = true
	}
	e.Scn.Prog.Install(w, e.Scn.Cfg.Kind)
	ctl, err := e.Factory(w, &e.Scn.Cfg)
	if err != nil {
		return err
	}
	e.W = w
	e.Ctl = ctl
	return nil
}

// Rebuild builds a new controller instance in the same process (same clientset, same discovery map):
// what happens when the controller object's spec changes.
func (e *Env) Rebuild() error {
	ctl, err := e.Factory(e.W, &e.Scn.Cfg)
	if err != nil {
		return err
	}
	e.Ctl = ctl
	return nil
}

// Parent returns the live parent (nil if gone).
func (e *Env) Parent() map[string]any {
	return e.W.Sim.Get(e.Scn.Cfg.ParentResource, e.Scn.ParentNS(), e.Scn.ParentName())
}

// ParentKey is the controller's queue key for the parent.
func (e *Env) ParentKey() string { return e.Ctl.KeyFor(e.Scn.Parent) }

// ChildResources lists the declared child resources.
func (e *Env) ChildResources() []string {
	var out []string
	for _, ch := range e.Scn.Cfg.Children {
		out = append(out, ch.Resource)
	}
	return out
}

// SyncTrace is everything observable about one sync.
type SyncTrace struct {
	N        int
	Err      error
	Panic    string
	Reqs     []*vs.Request
	Hooks    []*HookExchange
	Queue    []QueueCall
	CacheMut []string
	// PreCache: cached objects per resource at sync start (deep copies)
	PreCache map[string][]map[string]any
}

// Writes returns the mutating requests of the trace.
func (t *SyncTrace) Writes() []*vs.Request {
	var out []*vs.Request
	for _, r := range t.Reqs {
		if r.Mutating() {
			out = append(out, r)
		}
	}
	return out
}

// WritesOn returns mutating requests targeting one object.
func (t *SyncTrace) WritesOn(resource, ns, name string) []*vs.Request {
	var out []*vs.Request
	for _, r := range t.Reqs {
		if r.Mutating() && r.Def.Resource == resource && r.Name == name && (r.Namespace == ns || !r.Def.Namespaced) {
			out = append(out, r)
		}
	}
	return out
}

func (t *SyncTrace) Summary() []string {
	var out []string
	for _, r := range t.Reqs {
		out = append(out, r.String())
	}
	if t.Err != nil {
		out = append(out, "sync error: "+t.Err.Error())
	}
	if t.Panic != "" {
		out = append(out, "PANIC: "+t.Panic)
	}
	return out
}

// Sync runs one sync with the caches as they are. Panics of the code under
// test are captured in the trace (the caller decides whether that is a
// violation).
func (e *Env) Sync() *SyncTrace {
	key := e.ParentKey()
	t := e.run(func() error { return e.Ctl.Sync(key) })
	e.judgeQueueKeys(t, key)
	return t
}

// judgeQueueKeys: whatever a sync of one parent puts on the work queue (delayed resync, retry) must use the key
// the event handlers use for that parent. The queue hands a key to one worker at a time; a parent known under
// two keys can be synced by two workers at once (C17: same results as running the syncs one after another).
func (e *Env) judgeQueueKeys(t *SyncTrace, key string) {
	for _, q := range t.Queue {
		if (q.Op == "AddAfter" || q.Op == "AddRateLimited" || q.Op == "Add") && q.Key != key {
			e.QueueViolations = append(e.QueueViolations, fmt.Sprintf("sync %d of key %q: %s(%q)", t.N, key, q.Op, q.Key))
		}
	}
}

// judgeLateHooks: sync and finalize hooks are only ever called from inside a sync, and their results are part of it.
// An exchange that completed after the sync it was begun in had returned was made by a goroutine that outlived
// that sync (customize calls may also come from event handlers and are not judged).
func (e *Env) judgeLateHooks(hs []*HookExchange) {
	for _, h := range hs {
		if h.URL != SyncURL && h.URL != FinalizeURL {
			continue
		}
		if end, ok := e.runEnd[h.Epoch]; ok && h.DoneAt.After(end) {
			e.LateHookCalls = append(e.LateHookCalls, fmt.Sprintf("a %s call begun in sync %d was answered %v after that sync had returned", h.URL, h.Epoch, h.DoneAt.Sub(end).Round(time.Microsecond)))
		}
	}
}

// SharedStateViolation reports what the monitors that run with every sync have found (nil: nothing).
func (e *Env) SharedStateViolation() error {
	if len(e.CacheViolations) > 0 {
		return vs.Violf("C17/cache-mutated", "shared cache objects changed during a sync: %v", e.CacheViolations)
	}
	if len(e.LateHookCalls) > 0 {
		return vs.Violf("C17/hook-call-outlives-its-sync", "per-revision hook calls are part of the sync that makes them (a stopped controller makes no further calls, results are used or the sync fails): %v", e.LateHookCalls)
	}
	if len(e.QueueViolations) > 0 {
		return vs.Violf("C17/parent-queued-under-two-keys", "a sync queued its own parent under another key than the one the event handlers use: %v", e.QueueViolations)
	}
	return nil
}

// Process runs the controller's own queue step (sync + requeue bookkeeping).
func (e *Env) Process() *SyncTrace {
	key := e.ParentKey()
	t := e.run(func() error { e.Ctl.Process(key); return nil })
	e.judgeQueueKeys(t, key)
	return t
}

func (e *Env) run(f func() error) *SyncTrace {
	e.Syncs++
	t := &SyncTrace{N: e.Syncs, PreCache: map[string][]map[string]any{}}
	for _, r := range e.W.ResourceNames() {
		t.PreCache[r] = e.W.CachedList(r)
	}
	e.W.Sim.Epoch = e.Syncs
	prevHookEpoch := e.W.Hooks.Epoch
	e.W.Hooks.Epoch = e.Syncs
	seq := e.W.Sim.Seq()
	e.judgeLateHooks(e.W.Hooks.Take())
	e.W.Queue.Take()
	before := e.W.CacheFingerprint()
	func() {
		defer func() {
			if p := recover(); p != nil {
				t.Panic = fmt.Sprintf("%v\n%s", p, trimStack(string(debug.Stack())))
			}
		}()
		t.Err = f()
	}()
	endAt := time.Now()
	after := e.W.CacheFingerprint()
	t.CacheMut = DiffFingerprints(before, after)
	if len(t.CacheMut) > 0 {
		e.CacheViolations = append(e.CacheViolations, fmt.Sprintf("sync %d: %v", t.N, t.CacheMut))
	}
	t.Reqs = e.W.Sim.LogSince(seq)
	t.Hooks = e.W.Hooks.Take()
	e.judgeLateHooks(t.Hooks)
	if e.runEnd == nil {
		e.runEnd = map[int]time.Time{}
	}
	e.runEnd[t.N] = endAt
	e.W.Hooks.Epoch = prevHookEpoch // (a sync may run nested inside a request of another one)
	t.Queue = e.W.Queue.Take()
	if os.Getenv("VERIF_TRACE") != "" {
		fmt.Fprintf(os.Stderr, "--- sync %d\n", t.N)
		for _, l := range t.Summary() {
			fmt.Fprintf(os.Stderr, "    %s\n", l)
		}
		if os.Getenv("VERIF_TRACE") == "2" {
			for _, r := range t.Reqs {
				if r.Mutating() {
					fmt.Fprintf(os.Stderr, "      body #%d: %v\n", r.Seq, r.Body)
				}
			}
			for _, h := range t.Hooks {
				fmt.Fprintf(os.Stderr, "      hook %s -> %d %s\n", h.URL, h.Response.Code, string(h.Response.Body))
			}
		}
	}
	return t
}

func trimStack(s string) string {
	lines := strings.Split(s, "\n")
	var keep []string
	for i := 0; i < len(lines) && len(keep) < 30; i++ {
		if strings.Contains(lines[i], "metacontroller/pkg") && !strings.Contains(lines[i], "verif") {
			keep = append(keep, strings.TrimSpace(lines[i]))
			if i+1 < len(lines) {
				keep = append(keep, "    "+strings.TrimSpace(lines[i+1]))
			}
		}
	}
	return strings.Join(keep, "\n")
}

// SyncFresh catches all caches up, then syncs.
func (e *Env) SyncFresh() *SyncTrace {
	e.W.SyncAll()
	return e.Sync()
}

// NormalizeDesired applies the documented additions metacontroller makes to a
// hook's desired child before applying it: namespace defaulting, the
// controller-uid label under selector generation, the decorator marker.
func (e *Env) NormalizeDesired(child map[string]any) map[string]any {
	c := vs.CopyMap(child)
	m, _ := c["metadata"].(map[string]any)
	d := e.W.Sim.DefByKind(c["apiVersion"].(string), c["kind"].(string))
	if d.Namespaced && metaStr(c, "namespace") == "" {
		m["namespace"] = e.Scn.ParentNS()
	}
	if e.Scn.Cfg.Kind == "composite" && e.Scn.Cfg.GenerateSelector {
		l, _ := m["labels"].(map[string]any)
		if l == nil {
			l = map[string]any{}
			m["labels"] = l
		}
		if _, ok := l["controller-uid"]; !ok {
			l["controller-uid"] = e.ParentUID
		}
	}
	if e.Scn.Cfg.Kind == "decorator" {
		a, _ := m["annotations"].(map[string]any)
		if a == nil {
			a = map[string]any{}
			m["annotations"] = a
		}
		a["metacontroller.k8s.io/decorator-controller"] = e.Scn.Cfg.Name
	}
	return c
}

// ObjID identifies an object in reports.
func ObjID(o map[string]any) string {
	av, _ := o["apiVersion"].(string)
	return objIDOf(fmt.Sprint(o["kind"]), av, metaStr(o, "namespace"), metaStr(o, "name"))
}

// objIDOf: "<Kind>[.<group>] <namespace>/<name>" - the same Kind may exist in several API groups.
func objIDOf(kind, apiVersion, ns, name string) string {
	if i := strings.Index(apiVersion, "/"); i > 0 {
		kind += "." + apiVersion[:i]
	}
	return fmt.Sprintf("%s %s/%s", kind, ns, name)
}

// FindIn returns the object with the same kind/namespace/name from a list.
func FindIn(list []map[string]any, like map[string]any) map[string]any {
	for _, o := range list {
		if o["kind"] == like["kind"] && o["apiVersion"] == like["apiVersion"] && metaStr(o, "name") == metaStr(like, "name") && metaStr(o, "namespace") == metaStr(like, "namespace") {
			return o
		}
	}
	return nil
}

// syncOf runs one sync of an arbitrary parent of the controller's parent resource.
func (e *Env) syncOf(parent map[string]any) *SyncTrace {
	key := e.Ctl.KeyFor(parent)
	t := e.run(func() error { return e.Ctl.Sync(key) })
	e.judgeQueueKeys(t, key)
	return t
}

// DesiredFromTrace returns the children (attachments) of the last sync/finalize
// hook answer of the trace, normalised the way metacontroller documents
// (namespace defaulting, controller-uid label, decorator marker).
func (e *Env) DesiredFromTrace(t *SyncTrace) ([]map[string]any, bool) {
	var last *HookExchange
	for _, h := range t.Hooks {
		if h.URL != CustomizeURL && h.Response.Code == 200 {
			last = h
		}
	}
	if last == nil {
		return nil, false
	}
	resp, err := vs.DecodeJSON(last.Response.Body)
	if err != nil {
		return nil, false
	}
	key := "children"
	if e.Scn.Cfg.Kind == "decorator" {
		key = "attachments"
	}
	kids, _ := resp[key].([]any)
	var out []map[string]any
	for _, k := range kids {
		if km, ok := k.(map[string]any); ok {
			out = append(out, e.NormalizeDesired(km))
		}
	}
	return out, true
}

func stackNow() string { return string(debug.Stack()) }

// SetVerboseLogging switches metacontroller's package-level logger between "discard" and a
// sink that is enabled at every verbosity (so that V(5) debug paths run) and drops the output.
func SetVerboseLogging(on bool) {
	if on {
		logging.Logger = funcr.New(func(prefix, args string) {}, funcr.Options{Verbosity: 10})
	} else {
		logging.Logger = logr.Discard()
	}
}
