package verifworld

import (
	"encoding/json"
	"fmt"
	"sort"
	"strings"

	vs "metacontroller/pkg/internal/verifsim"
)

// RolloutOpts bounds a generated rollout scenario.
type RolloutOpts struct {
	MaxChildren int
	Steps       int
	Deletes     bool // environment may delete children externally
	Lag         bool // environment may make a child lag its observedGeneration
	Scale       bool // replicas may change (non-revisioned when custom field paths)
	Small       bool // keep the configuration space tiny (exhaustive mode)
	SingleEdit  bool // C09: only one parent change per scenario
	TwoKinds    bool // C08: a second rolling child kind whose children share the names of the first
}

// NewRolloutScn draws a rolling-update scenario: namespaced parent, dynamic
// apply, one rolling child kind (widgets) with fixed or replicated names.
func NewRolloutScn(c *vs.Case, o RolloutOpts) *Scn {
	s := &Scn{SelLabels: map[string]string{"app": "p1"}}
	method := c.PickStr("RollingInPlace", "RollingRecreate")
	ch := ChildCfg{Resource: "widgets", Method: method}
	var checks int
	if o.Small {
		checks = c.Int(2) * 2 // none | type+status
	} else {
		checks = c.Int(4)
	}
	tr, fine := "True", "Fine"
	switch checks {
	case 1:
		ch.Checks = []CondCheck{{Type: "Ready"}}
	case 2:
		ch.Checks = []CondCheck{{Type: "Ready", Status: &tr}}
	case 3:
		ch.Checks = []CondCheck{{Type: "Ready", Status: &tr, Reason: &fine}}
	}
	s.Cfg = CtlConfig{Kind: "composite", Name: "ctl", ParentResource: "things", SyncHook: true, Children: []ChildCfg{ch}}
	customPaths := c.Bool()
	if !customPaths && !o.Small {
		s.Cfg.EmptyRevisionHistory = c.Weighted(4, 1, 1)
	}
	if customPaths {
		s.Cfg.FieldPaths = []string{"spec.template"}
		if !o.Small {
			// several paths, some of them not set on the parent at all
			switch c.Int(4) {
			case 1:
				s.Cfg.FieldPaths = []string{"spec.unset", "spec.template"}
			case 2:
				s.Cfg.FieldPaths = []string{"spec.template", "spec.unset.deeper"}
			case 3:
				s.Cfg.FieldPaths = []string{"spec.absent", "spec.template.v", "spec.template.metadata"}
			}
		}
	}
	n := 1 + c.Int(o.MaxChildren)
	tpl := ChildTpl{Resource: "widgets", Labels: map[string]string{"app": "p1"},
		Fields: map[string]any{"spec": map[string]any{"v": "$p:spec.template.v", "mode": "$p:spec.other", "extra": "$p:spec.template.extra"}}}
	replicas := int64(0)
	if o.Scale && c.Bool() {
		tpl.Replicated = true
		replicas = int64(n)
	} else {
		for i := 0; i < n; i++ {
			tpl.Names = append(tpl.Names, fmt.Sprintf("w%d", i))
		}
		if !o.Small && c.Bool() {
			// hook order need not be alphabetical
			for i, j := 0, len(tpl.Names)-1; i < j; i, j = i+1, j-1 {
				tpl.Names[i], tpl.Names[j] = tpl.Names[j], tpl.Names[i]
			}
		}
	}
	s.Prog = HookProgram{Children: []ChildTpl{tpl}}
	if o.Small {
		s.Prog.StatusMode = 1
	} else {
		s.Prog.StatusMode = []int{1, 2, 3, 0, 5}[c.Int(5)]
		if c.Prob(1, 4) {
			// a second, non-rolling kind next to the rolling one
			s.Cfg.Children = append(s.Cfg.Children, ChildCfg{Resource: "configmaps", Method: c.PickStr("InPlace", "OnDelete", "Recreate")})
			s.Prog.Children = append(s.Prog.Children, ChildTpl{Resource: "configmaps", Names: []string{"cm0"}, Labels: map[string]string{"app": "p1"},
				Fields: map[string]any{"data": map[string]any{"v": "$p:spec.template.v", "mode": "$p:spec.other"}}})
		}
	}
	s.Parent = map[string]any{"apiVersion": "ex.io/v1", "kind": "Thing",
		"metadata": map[string]any{"name": "p1", "namespace": "ns1"},
		"spec": map[string]any{
			"selector": map[string]any{"matchLabels": map[string]any{"app": "p1"}},
			"replicas": replicas,
			"other":    "o1",
			"template": map[string]any{"v": "v1", "metadata": map[string]any{"labels": map[string]any{"app": "p1"}}},
		}}
	if !o.Small && c.Prob(1, 5) {
		// a hook that hands the observed annotations (metacontroller's own record included) back
		for i := range s.Prog.Children {
			s.Prog.Children[i].EchoAnnotations = true
		}
		c.Class("hook-echoes-annotations")
	}
	if o.TwoKinds && c.Prob(1, 4) {
		// a second rolling kind; its children carry the same names as the widgets
		ch2 := ch
		ch2.Resource = "gadgets"
		s.Cfg.Children = append(s.Cfg.Children, ch2)
		tpl2 := s.Prog.Children[0]
		tpl2.Resource = "gadgets"
		tpl2.Labels = map[string]string{"app": "p1"}
		tpl2.Names = append([]string(nil), s.Prog.Children[0].Names...)
		tpl2.Fields = map[string]any{"spec": map[string]any{"v": "$p:spec.template.v", "mode": "$p:spec.other", "extra": "$p:spec.template.extra"}}
		s.Prog.Children = append(s.Prog.Children, tpl2)
		c.Class("two-rolling-kinds")
	}
	if !o.Small && c.Prob(1, 5) {
		// a selector that mixes matchLabels with an expression on another key
		s.SelLabels["tier"] = "a"
		spec := s.Parent["spec"].(map[string]any)
		spec["selector"].(map[string]any)["matchExpressions"] = []any{map[string]any{"key": "tier", "operator": "In", "values": []any{"a", "b"}}}
		spec["template"].(map[string]any)["metadata"].(map[string]any)["labels"].(map[string]any)["tier"] = "a"
		for i := range s.Prog.Children {
			s.Prog.Children[i].Labels["tier"] = "a"
		}
		c.Class("mixed-selector")
	}
	return s
}

// ---- the reference model of one rollout step ----------------------------------------------

type modelRev struct {
	Name   string
	Patch  map[string]any
	Names  []string // rolling children claimed (widgets)
	Latest bool
	Parent map[string]any // parent as this revision sees it
}

// RolloutModel is the expected outcome of one sync.
type RolloutModel struct {
	Revs      []*modelRev
	Assigned  map[string]*modelRev // child name -> revision after the sync
	Moved     string               // the gated move ("" if none)
	Immediate []string             // children moved because they already matched latest
	Reason    string               // OnLatestRevision | RolloutProgressing | RolloutWaiting
	Status    string
	WaitWhy   string
	Order     []string // rolling children in hook order (latest)
	DesiredBy map[string]map[string]any
}

func fieldPathsOf(cfg *CtlConfig) []string {
	if len(cfg.FieldPaths) > 0 {
		return cfg.FieldPaths
	}
	return []string{"spec"}
}

func makePatchRef(src map[string]any, paths []string) map[string]any {
	out := map[string]any{}
	for _, p := range paths {
		if v, ok := getPath(src, p); ok {
			setPath(out, p, vs.DeepCopyAny(v))
		}
	}
	return out
}

func setPath(dst map[string]any, path string, v any) {
	parts := strings.Split(path, ".")
	cur := dst
	for _, p := range parts[:len(parts)-1] {
		next, ok := cur[p].(map[string]any)
		if !ok {
			next = map[string]any{}
			cur[p] = next
		}
		cur = next
	}
	cur[parts[len(parts)-1]] = v
}

func applyPatchRef(parent, patch map[string]any, paths []string) map[string]any {
	out := vs.CopyMap(parent)
	for _, p := range paths {
		if v, ok := getPath(patch, p); ok {
			setPath(out, p, vs.DeepCopyAny(v))
		}
	}
	return out
}

func condOf(obj map[string]any, typ string) map[string]any {
	conds, _ := getPath(obj, "status.conditions")
	l, _ := conds.([]any)
	for _, c := range l {
		if m, ok := c.(map[string]any); ok && m["type"] == typ {
			return m
		}
	}
	return nil
}

// childHealthy: the configured status checks and (RollingInPlace) the
// observedGeneration rule, evaluated independently.
func childHealthy(ch *ChildCfg, obj map[string]any) (bool, string) {
	if ch.Method == "RollingInPlace" {
		og, _ := getPath(obj, "status.observedGeneration")
		ogf, isNum := toF(og)
		gen, _ := toF(metaOfMap(vs.CopyMap(obj))["generation"])
		if isNum && ogf > 0 && ogf < gen {
			return false, "has not observed its latest generation"
		}
	}
	for _, ck := range ch.Checks {
		cond := condOf(obj, ck.Type)
		if cond == nil {
			return false, "condition " + ck.Type + " missing"
		}
		if ck.Status != nil && cond["status"] != *ck.Status {
			return false, "condition status"
		}
		if ck.Reason != nil {
			r, _ := cond["reason"].(string)
			if r != *ck.Reason {
				return false, "condition reason"
			}
		}
	}
	return true, ""
}

func toF(v any) (float64, bool) {
	switch t := v.(type) {
	case int64:
		return float64(t), true
	case float64:
		return t, true
	case int:
		return float64(t), true
	}
	return 0, false
}

// ModelRolloutStep computes what one sync must do, from the pre-state.
func ModelRolloutStep(e *Env, parent map[string]any, revObjs []map[string]any, observed map[string]map[string]any) *RolloutModel {
	cfg := &e.Scn.Cfg
	paths := fieldPathsOf(cfg)
	ch := cfg.ChildCfgOf("widgets")
	m := &RolloutModel{Assigned: map[string]*modelRev{}, DesiredBy: map[string]map[string]any{}}
	latestPatch := makePatchRef(parent, paths)
	latest := &modelRev{Latest: true, Patch: latestPatch, Parent: parent}
	var others []*modelRev
	for _, ro := range revObjs {
		if ControllerOf(ro) != metaStr(parent, "uid") {
			continue
		}
		patch, _ := ro["parentPatch"].(map[string]any)
		var names []string
		kids, _ := ro["children"].([]any)
		for _, k := range kids {
			km, _ := k.(map[string]any)
			if km["kind"] == "Widget" && km["apiGroup"] == "ex.io" {
				ns, _ := km["names"].([]any)
				for _, n := range ns {
					names = append(names, fmt.Sprint(n))
				}
			}
		}
		if vs.JSONEqual(patch, latestPatch) {
			latest.Name = metaStr(ro, "name")
			latest.Names = names
			continue
		}
		others = append(others, &modelRev{Name: metaStr(ro, "name"), Patch: patch, Names: names, Parent: applyPatchRef(parent, patch, paths)})
	}
	sort.Slice(others, func(i, j int) bool { return others[i].Name < others[j].Name })
	m.Revs = append([]*modelRev{latest}, others...)

	wireObserved := func() map[string]any {
		var list []map[string]any
		for _, r := range e.ChildResources() {
			for _, o := range e.W.Sim.ListAll(r) {
				if ControllerOf(o) == metaStr(parent, "uid") && metaStr(o, "namespace") == metaStr(parent, "namespace") && e.selectorMatches(parent, LabelsOf(o)) {
					list = append(list, o)
				}
			}
		}
		return WireChildren(e.W.Sim, e.ChildResources(), metaStr(parent, "namespace"), list)
	}()
	desiredOf := func(p map[string]any) (map[string]map[string]any, []string) {
		resp := e.Scn.Prog.eval(e.W.Sim, p, wireObserved, false, "children")
		out := map[string]map[string]any{}
		var order []string
		kids, _ := resp["children"].([]any)
		for _, k := range kids {
			km := k.(map[string]any)
			if km["kind"] != "Widget" {
				continue
			}
			n := e.NormalizeDesired(km)
			out[metaStr(n, "name")] = n
			order = append(order, metaStr(n, "name"))
		}
		return out, order
	}
	dLatest, order := desiredOf(parent)
	m.Order = order
	perRev := map[*modelRev]map[string]map[string]any{latest: dLatest}
	for _, r := range others {
		perRev[r], _ = desiredOf(r.Parent)
	}
	// claims: latest first, drop what latest no longer desires, first claim wins
	claimed := map[string]*modelRev{}
	for _, r := range m.Revs {
		var keep []string
		for _, n := range r.Names {
			if _, want := dLatest[n]; !want {
				continue
			}
			if _, dup := claimed[n]; dup {
				continue
			}
			claimed[n] = r
			keep = append(keep, n)
		}
		r.Names = keep
	}
	upToDate := func(name string) (bool, bool) { // (observed, already equal to latest's desired)
		o := observed[name]
		if o == nil {
			return false, false
		}
		ref, ok, _ := vs.RefApplyUpdate(o, dLatest[name])
		return true, ok && vs.JSONEqual(ref, o)
	}
	moveTo := func(name string, to *modelRev) {
		if from := claimed[name]; from != nil {
			var keep []string
			for _, n := range from.Names {
				if n != name {
					keep = append(keep, n)
				}
			}
			from.Names = keep
		}
		to.Names = append(to.Names, name)
		claimed[name] = to
	}
	for _, n := range order {
		r, ok := claimed[n]
		switch {
		case !ok:
			moveTo(n, latest)
		case r != latest:
			if obs, same := upToDate(n); obs && same {
				moveTo(n, latest)
				m.Immediate = append(m.Immediate, n)
			}
		}
	}
	m.Reason, m.Status = "OnLatestRevision", "True"
	for _, n := range order {
		if claimed[n] == latest {
			continue
		}
		// the gate: every child already on latest is observed, up to date and healthy
		ok := true
		for _, ln := range latest.Names {
			obs, same := upToDate(ln)
			if !obs {
				ok, m.WaitWhy = false, "missing child "+ln
				break
			}
			if !same {
				ok, m.WaitWhy = false, "child "+ln+" not updated yet"
				break
			}
			if h, why := childHealthy(ch, observed[ln]); !h {
				ok, m.WaitWhy = false, "child "+ln+": "+why
				break
			}
		}
		if ok {
			moveTo(n, latest)
			m.Moved = n
			m.Reason, m.Status = "RolloutProgressing", "False"
		} else {
			m.Reason, m.Status = "RolloutWaiting", "False"
		}
		break
	}
	for n, r := range claimed {
		m.Assigned[n] = r
		if d := perRev[r][n]; d != nil {
			m.DesiredBy[n] = d
		} else {
			// the old revision's hook does not desire this child (e.g. scaled differently): latest's wins
			m.DesiredBy[n] = dLatest[n]
		}
	}
	return m
}

// JudgeRolloutSync compares one sync with the model.
func JudgeRolloutSync(c *vs.Case, e *Env, t *SyncTrace, m *RolloutModel, observed map[string]map[string]any, parentBefore map[string]any) error {
	cfg := &e.Scn.Cfg
	ch := cfg.ChildCfgOf("widgets")
	if t.Err != nil {
		return vs.Violf("C07/sync-error", "rollout sync failed: %v", t.Err)
	}
	// revisions after the sync
	after := map[string][]string{}
	for _, ro := range e.W.Sim.ListAll("controllerrevisions") {
		if ControllerOf(ro) != e.ParentUID {
			continue
		}
		var names []string
		kids, _ := ro["children"].([]any)
		for _, k := range kids {
			km, _ := k.(map[string]any)
			if km["kind"] == "Widget" {
				ns, _ := km["names"].([]any)
				for _, n := range ns {
					names = append(names, fmt.Sprint(n))
				}
			}
		}
		sort.Strings(names)
		patch, _ := ro["parentPatch"].(map[string]any)
		after[canon(patch)] = names
	}
	for _, r := range m.Revs {
		want := append([]string(nil), r.Names...)
		sort.Strings(want)
		got, exists := after[canon(r.Patch)]
		switch {
		case r.Latest && !exists:
			return vs.Violf("C07/latest-revision-missing", "no ControllerRevision for the latest parent state after the sync")
		case !r.Latest && len(want) == 0 && exists:
			stale := true
			for _, g := range got {
				for _, o := range m.Order {
					if o == g {
						stale = false
					}
				}
			}
			if !stale {
				return vs.Violf("C07/empty-revision-kept", "ControllerRevision %s should have no children left but still claims %v", r.Name, got)
			}
			continue
		case !r.Latest && len(want) == 0:
			continue
		case !exists:
			return vs.Violf("C07/revision-missing", "ControllerRevision %s should still claim %v but is gone", r.Name, want)
		}
		// names the latest hook response no longer desires are not claims any more
		// (whether they are scrubbed from the stored object is not part of the property)
		var eff []string
		for _, g := range got {
			for _, o := range m.Order {
				if o == g {
					eff = append(eff, g)
				}
			}
		}
		got = eff
		if !vs.JSONEqual(got, want) && !(len(got) == 0 && len(want) == 0) {
			why := ""
			if m.Moved != "" {
				why = fmt.Sprintf(" (model: gated move of %s)", m.Moved)
			} else if m.Reason == "RolloutWaiting" {
				why = " (model: rollout must wait: " + m.WaitWhy + ")"
			}
			return vs.Violf("C07/revision-claims-differ", "revision latest=%v %s claims %v after the sync, expected %v%s; hook order %v, immediate moves %v", r.Latest, r.Name, got, want, why, m.Order, m.Immediate)
		}
	}
	// child writes follow the revision each child is assigned to
	for _, n := range m.Order {
		want := m.DesiredBy[n]
		if want == nil {
			continue
		}
		ws := t.WritesOn("widgets", "ns1", n)
		o := observed[n]
		rev := "latest"
		if r := m.Assigned[n]; r != nil && !r.Latest {
			rev = "old revision " + r.Name
		}
		if o == nil {
			if len(ws) != 1 || ws[0].Verb != "create" {
				return vs.Violf("C07/missing-child-not-created", "child %s (assigned to %s) is missing: want one POST, got %v", n, rev, reqStrs(ws))
			}
			if ok, why := Contains(ws[0].Body, want); !ok {
				return vs.Violf("C07/child-created-at-wrong-revision", "child %s (assigned to %s) was created with a body that does not match that revision's desired state: %s", n, rev, why)
			}
			continue
		}
		if IsDeleting(o) {
			continue
		}
		ref, ok, _ := vs.RefApplyUpdate(o, want)
		if !ok {
			continue
		}
		if vs.JSONEqual(ref, o) {
			if len(ws) != 0 {
				return vs.Violf("C07/unexpected-child-write", "child %s (assigned to %s) already matches that revision's desired state but got %v", n, rev, reqStrs(ws))
			}
			continue
		}
		switch ch.Method {
		case "RollingInPlace":
			if len(ws) != 1 || ws[0].Verb != "update" {
				return vs.Violf("C07/child-not-updated", "child %s (assigned to %s) differs from that revision's desired state: want one PUT, got %v", n, rev, reqStrs(ws))
			}
			if !vs.JSONEqual(stripRV(ws[0].Body), stripRV(ref)) {
				return vs.Violf("C07/child-updated-to-wrong-revision", "child %s (assigned to %s): PUT body differs from the merge with that revision's desired state\nbody=%v\nwant=%v", n, rev, ws[0].Body, ref)
			}
		case "RollingRecreate":
			if len(ws) != 1 || ws[0].Verb != "delete" {
				return vs.Violf("C07/child-not-recreated", "child %s (assigned to %s) differs from that revision's desired state: want one DELETE, got %v", n, rev, reqStrs(ws))
			}
		}
	}
	// the Updated condition
	live := e.Parent()
	if live != nil {
		cond := condOf(live, "Updated")
		if cond == nil {
			return vs.Violf("C07/updated-condition-wrong", "parent status has no Updated condition (model: %s)", m.Reason)
		}
		if cond["reason"] != m.Reason || cond["status"] != m.Status {
			return vs.Violf("C07/updated-condition-wrong", "parent Updated condition is %v/%v (%v), model says %s/%s %s", cond["status"], cond["reason"], cond["message"], m.Status, m.Reason, m.WaitWhy)
		}
		nUpdated := 0
		if l, ok := getPath(live, "status.conditions"); ok {
			for _, x := range l.([]any) {
				if xm, ok := x.(map[string]any); ok && xm["type"] == "Updated" {
					nUpdated++
				}
			}
		}
		if nUpdated > 1 {
			return vs.Violf("C07/updated-condition-wrong", "parent status carries %d conditions of type Updated", nUpdated)
		}
	}
	_ = parentBefore
	return nil
}

func canon(v any) string {
	b, _ := json.Marshal(v)
	return string(b)
}
